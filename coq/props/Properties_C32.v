(* C32 -- configuration layers apply in the documented precedence.
   Only statements here; proofs are in proofs/ConfigLayerProofs.v.  `merge base overlay` is merge_config_objects (how a
   profile is laid over its ancestors and the environment overrides over the profile), `find_path` / `get_int_any` the
   look-ups apply_profile_to_options makes, `resolve` is resolve_profile, `load` is load_configuration.
   The property's statement for one setting over two layers is c32_statement; on the faithful model of the unchanged code it
   is FALSE (c32_refuted, witness replayed on the implementation: known_findings.json): all layers are first folded into one
   tree and only then are a setting's spellings tried in their fixed order, so an ancestor that uses an earlier spelling
   beats a descendant that uses a later one.  What does hold is proved beside it. *)
Require Import ZArith List Lia Bool.
Import ListNotations.
Local Open Scope Z_scope.
From EphVerif Require Import lib.Bytes model.ConfigLayerModel proofs.ConfigLayerProofs.

(* the property for one integer setting and two layers: the merged look-up is the higher layer's answer when it has one *)
Definition c32_statement : Prop :=
  forall base overlay paths, get_int_any (merge base overlay) paths = precedence_int overlay base paths.
Theorem c32_refuted : ~ c32_statement.
Proof. exact setting_precedence_refuted. Qed.
Print Assumptions c32_refuted.

(* the witness through the whole loader: `default` (storage.wipe-passes: 255) extends `base` (storage.wipe_passes: 155) *)
Theorem c32_witness : exists r,
  load w_doc [(n_default, 100); (n_base, 101)] None None [] no_flags = Ok r /\ o_wipe_passes r = Some 155.
Proof. exact loader_witness. Qed.

(* ---- what holds for every configuration ---- *)
(* along one key path: the higher layer's plain value wins ... *)
Theorem c32_overlay_wins : forall p base overlay v, leaf v -> nodup_along overlay p ->
  find_path overlay p = Some v -> find_path (merge base overlay) p = Some v.
Proof. exact overlay_wins. Qed.
Print Assumptions c32_overlay_wins.
(* ... and where the higher layer is silent the lower one shows through unchanged *)
Theorem c32_base_shows_through : forall p base overlay, nodup_along overlay p -> silent overlay p ->
  find_path (merge base overlay) p = find_path base p.
Proof. exact base_shows_through. Qed.
Print Assumptions c32_base_shows_through.

(* a whole setting (its spellings tried in order): a layer that mentions none of them changes nothing ... *)
Theorem c32_setting_base_shows_through : forall base overlay paths,
  (forall q, In q paths -> nodup_along overlay q /\ silent overlay q) ->
  get_int_any (merge base overlay) paths = get_int_any base paths.
Proof. exact setting_base_shows_through. Qed.
(* ... and a layer that sets it wins, provided nothing below uses an earlier spelling: the partial property *)
Theorem c32_partial_setting_overlay_wins : forall base overlay pre p post v, nodup_along overlay p ->
  (forall q, In q pre -> nodup_along overlay q /\ silent overlay q /\ find_path base q = None) ->
  find_path overlay p = Some (VInt v) ->
  get_int_any (merge base overlay) (pre ++ p :: post) = Ok (Some v).
Proof. exact setting_overlay_wins. Qed.
Print Assumptions c32_partial_setting_overlay_wins.

(* a profile over its parent is exactly that merge (the child's own keys minus `extends` laid over the resolved parent) *)
Theorem c32_child_over_parent : forall f pf name names visiting tok body parent pbase,
  find (fun e => list_eqb (fst e) name) names = Some (name, tok) -> oget tok pf = Some (VObj body) ->
  existsb (Z.eqb tok) visiting = false -> oget k_extends body = Some (VStr parent) ->
  resolve f (VObj pf) parent names (tok :: visiting) = Ok pbase ->
  exists r, resolve (S f) (VObj pf) name names visiting = Ok r /\ r = merge pbase (VObj (odel k_extends body)).
Proof. exact child_over_parent. Qed.

(* the command line wins over every file layer: an option the flags set is never touched *)
Theorem c32_flags_win : forall profile o r, apply_profile profile o = Ok r ->
  (forall v, o_control_port o = Some v -> o_control_port r = Some v) /\
  (forall v, o_transport_port o = Some v -> o_transport_port r = Some v) /\
  (forall v, o_token o = Some v -> o_token r = Some v) /\
  (forall v, o_default_ttl o = Some v -> o_default_ttl r = Some v) /\
  (forall v, o_min_ttl o = Some v -> o_min_ttl r = Some v) /\
  (forall v, o_max_ttl o = Some v -> o_max_ttl r = Some v) /\
  (forall v, o_pow o = Some v -> o_pow r = Some v) /\
  (forall v, o_persistent o = Some v -> o_persistent r = Some v) /\
  (forall v, o_wipe_passes o = Some v -> o_wipe_passes r = Some v) /\
  (forall v, o_rotation o = Some v -> o_rotation r = Some v) /\
  (forall v, o_fetch_parallel o = Some v -> o_fetch_parallel r = Some v).
Proof. exact flags_win. Qed.
Print Assumptions c32_flags_win.

(* cyclic and missing profiles are errors: a chain that returns to a profile being resolved, or names one that does not
   exist, gives E_CONFIG_PROFILE whatever the fuel ... *)
Theorem c32_cycle_is_an_error : forall f pf name names visiting nm tok body,
  find (fun e => list_eqb (fst e) name) names = Some (nm, tok) -> oget tok pf = Some (VObj body) ->
  existsb (Z.eqb tok) visiting = true -> resolve f (VObj pf) name names visiting = Err 2.
Proof. exact revisit_is_an_error. Qed.
Theorem c32_missing_profile_is_an_error : forall f pf name names visiting,
  find (fun e => list_eqb (fst e) name) names = None -> resolve (S f) (VObj pf) name names visiting = Err 2.
Proof. exact missing_profile_is_an_error. Qed.
(* ... and resolution never runs out of fuel (never "loops"): the fuel the loader passes is enough, any more changes nothing *)
Theorem c32_resolution_terminates : forall pf names name extra,
  resolve (S (length pf)) (VObj pf) name names [] = resolve (S (length pf) + extra) (VObj pf) name names [].
Proof. exact load_fuel_is_enough. Qed.
Print Assumptions c32_resolution_terminates.
