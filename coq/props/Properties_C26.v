(* C26 -- the relay never crashes and releases everything once clients leave.
   Only statements here; proofs are in proofs/RelayProofs.v.  Memory safety of the C++ is not a statement about the model: it
   is checked on the implementation (AddressSanitizer + UBSan build of the real server under the same histories); what the
   model carries is the bookkeeping: no history makes the server hang, and once every client has left no session and no
   registry entry is left. *)
Require Import ZArith List Lia Bool.
Import ListNotations.
Local Open Scope Z_scope.
From EphVerif Require Import lib.Bytes model.RelayModel proofs.RelayProofs.

(* after ANY history, when all clients that are still connected leave (in any... here: in order of connection), the server
   holds no session and no registration, and it did not hang on the way *)
Theorem c26_everything_released : forall ops,
  let s := everyone_leaves (run_ops init ops) in count_alive s = 0 /\ reg s = [] /\ hung s = false.
Proof. intros ops. apply everyone_leaves_clean. apply reachable_inv. exact Inv_init. Qed.
Print Assumptions c26_everything_released.

(* the endless loop in process_protocol (a session waiting for its identity whose partner is gone) is unreachable *)
Theorem c26_never_hangs : forall ops, hung (run_ops init ops) = false.
Proof. exact never_hangs. Qed.
Print Assumptions c26_never_hangs.

(* a session that is closed stays closed, and closing never creates sessions *)
Theorem c26_disconnect_only_removes : forall ops i k,
  let s := run_ops init ops in
  (Live (fst (step s (Disconnect i))) k -> Live s k /\ k <> i) /\
  length (clients (fst (step s (Disconnect i)))) = length (clients s).
Proof. intros ops i k. cbv zeta. apply disconnect_step. apply reachable_inv. exact Inv_init. Qed.

(* non-vacuity: two clients register the same id, a third claims it and leaves before its identity, then everyone leaves *)
Example c26_examples :
  let ida := repeat 97 64 in let idb := repeat 98 64 in
  let ops := [Connect; Connect; Connect; Send 0 (t_REGISTER ++ [32] ++ ida ++ [10]); Send 1 (t_REGISTER ++ [32] ++ ida ++ [10]);
              Send 2 (t_CONNECT ++ [32] ++ idb ++ [32] ++ ida ++ [10]); Disconnect 2] in
  let s := run_ops init ops in
  (count_alive s, map snd (reg s), count_alive (everyone_leaves s), reg (everyone_leaves s)) = (2, [1%nat], 0, []).
Proof. vm_compute. reflexivity. Qed.
