(* C06 -- provider lookups return exactly the live, non-withdrawn providers.
   Only statements here; proofs are in proofs/ProviderProofs.v. *)
Require Import ZArith List Lia.
Import ListNotations.
Local Open Scope Z_scope.
From EphVerif Require Import lib.Bytes model.ProviderModel proofs.ProviderProofs proofs.ProviderHistoryProofs gen.Constants_kademlia.

(* Every state reachable by any history of add / withdraw / find / sweep / advance (no bound on its length):
   per chunk, no holder expires after the locator deadline, peers are unique, at most 20 holders, never an
   empty locator; and chunk keys are unique. *)
Theorem c06_invariant : forall ops, Inv2 (exec init ops).
Proof. exact reachable_inv. Qed.
Print Assumptions c06_invariant.

(* A sweep never removes a provider before its own expiry, whatever other providers of the chunk announced:
   the locator survives with the same deadline and the provider is still listed. *)
Theorem c06_sweep_keeps_live : forall st c hs lexp h, Inv2 st ->
  get c (tbl st) = Some (hs, lexp) -> In h hs -> now st < snd h ->
  exists hs', get c (tbl (sweep st)) = Some (hs', lexp) /\ In h hs' /\ hs' = filter (live (now st)) hs.
Proof. exact sweep_keeps_live. Qed.
Print Assumptions c06_sweep_keeps_live.

(* A lookup answers exactly the holders whose own expiry lies in the future ... *)
Theorem c06_find_exact : forall st c, fst (find st c) =
  match get c (tbl st) with Some (hs, _) => filter (live (now st)) hs | None => [] end.
Proof. exact find_exact. Qed.

(* ... and sweeping first never changes that answer (in any reachable state) *)
Theorem c06_sweep_invisible : forall st c, Inv2 st -> fst (find (sweep st) c) = fst (find st c).
Proof. exact sweep_invisible. Qed.
Print Assumptions c06_sweep_invisible.

(* the most recent announcement is what is reported, others are kept (below the cap) *)
Theorem c06_add_then_find : forall st c p ttl, 0 < ttl ->
  zlen (match get c (tbl st) with Some (hs, _) => hs | None => [] end) < max_providers ->
  In (p, now st + ttl) (fst (find (add st c p ttl) c)) /\
  (forall h, In h (fst (find st c)) -> fst h <> p -> In h (fst (find (add st c p ttl) c))).
Proof. exact add_then_find. Qed.

(* a withdrawn peer is not reported and nothing appears by withdrawing *)
Theorem c06_withdraw_then_find : forall st c p h, In h (fst (find (withdraw st c p) c)) -> fst h <> p /\ In h (fst (find st c)).
Proof. exact withdraw_then_find. Qed.

(* at most 20, those expiring last: whatever the cap cuts expires no later than everything it keeps *)
Theorem c06_cap_keeps_latest : forall l x y, In x (firstn (Z.to_nat max_providers) (sort_desc l)) ->
  In y (skipn (Z.to_nat max_providers) (sort_desc l)) -> snd y <= snd x.
Proof. exact cap_keeps_latest. Qed.
Theorem c06_cap : max_providers = 20.
Proof. reflexivity. Qed.

(* The history-level statement.  The reference never removes anything because time has passed: `ref_exec ops` applies the
   announcements, withdrawals and clock advances of the history and ignores lookups and sweeps; `ref_find` is its holders whose
   own expiry lies in the future.  After ANY history that stays below the cap (`below_cap`: the reference never has to cut a
   list down to 20), every lookup of the real table -- which purges expired holders lazily, at lookups and sweeps, and drops
   whole locators -- answers exactly what the reference answers, in the same order. *)
Theorem c06_history_refinement : forall ops c, below_cap init ops ->
  fst (find (exec init ops) c) = ref_find (ref_exec ops) c /\ now (exec init ops) = now (ref_exec ops).
Proof. exact history_refinement. Qed.
Print Assumptions c06_history_refinement.
(* PARTIAL (c06_history_partial): histories that reach the cap are covered only step by step (c06_cap_keeps_latest): there the
   real table sorts and cuts a list from which expired holders may already have been purged, the reference one that still
   holds them, so the two agree only up to the order of the answer and up to std::sort's tie order; that permutation-level
   statement is not proved (the python oracle of the correspondence check compares sorted answers). *)

(* non-vacuity: the historical failure, in the model of the repaired code *)
Example c06_example :
  run_ops init [Add 0 0 1000; Add 0 1 0; Sweep; Find 0] = [1; 1; 0; 2000] /\
  run_ops init [Add 0 0 10; Advance 10; Find 0] = [0] /\
  run_ops init [Add 0 0 10; Add 0 0 5; Advance 7; Find 0] = [0] /\
  run_ops init [Add 0 0 10; Add 0 1 20; Withdraw 0 1; Find 0] = [1; 0; 1010].
Proof. repeat split; vm_compute; reflexivity. Qed.
