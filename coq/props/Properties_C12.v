(* C12 -- a mutual handshake yields one shared session key.
   Only statements here; proofs are in proofs/KeyExchangeProofs.v.  kx_prime / kx_generator are regenerated from
   include/ephemeralnet/network/KeyExchange.hpp on every run.  PoW acceptance is C19/C20's subject; here the two
   nodes have accepted each other and the question is which key each of them then holds. *)
Require Import ZArith List.
Import ListNotations.
Local Open Scope Z_scope.
From EphVerif Require Import lib.Bytes model.Sha256Model proofs.MessageProofs model.KeyExchangeModel
  proofs.KeyExchangeProofs gen.Constants_keyexchange.

(* the square-and-multiply loop computes base^e mod m for every 32-bit modulus; inside the proof every uint64_t
   product is shown to stay below 2^64, so the wrap that the model writes out never happens *)
Theorem c12_modexp : forall base e m, 0 < m < two32 -> 0 <= e < two32 -> modexp base e m = (base ^ e) mod m.
Proof. exact modexp_spec. Qed.
Print Assumptions c12_modexp.

(* Diffie-Hellman agreement holds for EVERY pair of private scalars (no assumption on p or g) *)
Theorem c12_dh_agreement : forall a b, 0 <= a < two32 -> 0 <= b < two32 ->
  modexp (compute_public a mod kx_prime) b kx_prime = modexp (compute_public b mod kx_prime) a kx_prime.
Proof. exact dh_agreement. Qed.
Theorem c12_shared_value : forall a b, 0 <= a < two32 -> 0 <= b < two32 ->
  modexp (compute_public b mod kx_prime) a kx_prime = (kx_generator ^ (a * b)) mod kx_prime.
Proof. exact shared_scalar_value. Qed.
Print Assumptions c12_dh_agreement.

(* after a mutual handshake both ends hold the same 32-byte session key *)
Theorem c12_same_session_key : forall a b, 0 <= a < two32 -> 0 <= b < two32 ->
  session_key a (compute_public a) (compute_public b) = session_key b (compute_public b) (compute_public a).
Proof. exact same_session_key. Qed.
Print Assumptions c12_same_session_key.
Theorem c12_key_length : forall priv mine remote, length (session_key priv mine remote) = 32%nat.
Proof. intros. apply hmac_length. Qed.

(* the key a node holds for a peer id is the one from the NEWEST handshake it accepted for that id, so a peer that comes
   back under the same id with a new identity scalar (after the cool-down; inside it see C20) agrees with the node again *)
Theorem c12_rehandshake_same_key : forall a hs peer b2, 0 <= a < two32 -> 0 <= b2 < two32 ->
  km_current (accept_all a (hs ++ [(peer, compute_public b2)])) peer =
  Some (session_key b2 (compute_public b2) (compute_public a)).
Proof. exact rehandshake_same_key. Qed.
Print Assumptions c12_rehandshake_same_key.

(* the key is HMAC(SHA-256(be32(DH value)), be32(min pub) || be32(max pub)): it depends on both public keys, and
   the material determines the unordered pair of public keys *)
Theorem c12_key_structure : forall priv mine remote,
  session_key priv mine remote =
  hmac (sha256 (be32 (modexp (remote mod kx_prime) priv kx_prime)))
       (be32 (Z.min mine remote) ++ be32 (Z.max mine remote)).
Proof. exact session_key_is_hmac. Qed.
Theorem c12_material_binds_both_keys : forall p q p' q',
  0 <= p < two32 -> 0 <= q < two32 -> 0 <= p' < two32 -> 0 <= q' < two32 ->
  make_handshake_material p q = make_handshake_material p' q' ->
  (p = p' /\ q = q') \/ (p = q' /\ q = p').
Proof. exact material_injective. Qed.
Print Assumptions c12_material_binds_both_keys.

(* public keys outside the open interval (1, p) are refused *)
Theorem c12_validate_public : forall c, validate_public c = true <-> 1 < c < kx_prime.
Proof. exact validate_public_iff. Qed.
Theorem c12_prime_is_2_31_minus_1 : kx_prime = 2 ^ 31 - 1 /\ kx_generator = 5.
Proof. split; reflexivity. Qed.

(* non-vacuity *)
Example c12_example : compute_public 1234 = (5 ^ 1234) mod (2 ^ 31 - 1) /\ validate_public (compute_public 1234) = true.
Proof. vm_compute. split; reflexivity. Qed.
