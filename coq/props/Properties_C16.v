(* C16 -- protocol decoding is total and memory-safe; accepted fields are taken verbatim.
   Only statements here; proofs are in proofs/MessageProofs.v. *)
Require Import ZArith List Lia.
Import ListNotations.
Local Open Scope Z_scope.
From EphVerif Require Import lib.Bytes model.MessageModel proofs.MessageProofs.

(* Every read the decoder makes is inside the buffer (a read outside would make the checked decoder
   return UB).  The model's decoder is a total function, so termination is by construction. *)
Theorem c16_no_ub : forall buf, bytes_ok buf -> decode_chk buf <> UB.
Proof. exact decode_chk_no_ub. Qed.
Print Assumptions c16_no_ub.

Theorem c16_signed_no_ub : forall buf key, bytes_ok buf -> decode_signed_chk buf key <> UB.
Proof. exact decode_signed_no_ub. Qed.
Print Assumptions c16_signed_no_ub.

(* anything accepted re-encodes to a prefix of the input *)
Theorem c16_verbatim : forall buf m, bytes_ok buf -> decode buf = Some m -> exists r, buf = encode m ++ r.
Proof. exact decode_verbatim. Qed.
Print Assumptions c16_verbatim.

(* non-vacuity: an accepted buffer with trailing garbage *)
Example c16_example :
  let buf := [4; 6; 1; 3; 0; 0; 0; 9; 255; 254] in
  bytes_ok buf /\ decode buf = Some {| m_version := 4; m_type := 6; m_payload := PHandshakeAck true 3 9 |}.
Proof.
  cbv zeta. split; [unfold bytes_ok, byte_ok; repeat constructor; lia | vm_compute; reflexivity].
Qed.

(* a non-canonical boolean byte is refused (it could not be reproduced by re-encoding) *)
Example c16_noncanonical_bool_refused : decode [4; 6; 2; 3; 0; 0; 0; 9] = None.
Proof. vm_compute. reflexivity. Qed.
