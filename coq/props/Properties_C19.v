(* C19 -- proof-of-work checks accept exactly the nonces that meet the target.
   Only statements here; proofs are in proofs/PowProofs.v.  The hash is the FIPS 180-4 specification
   (spec/Sha256Spec.v, validated against the published vectors); the tie between the streaming Sha256 object the
   C++ uses and that specification is C08's theorem (sha_streaming), used here. *)
Require Import ZArith List.
Import ListNotations.
Local Open Scope Z_scope.
From EphVerif Require Import lib.Bytes spec.Sha256Spec model.Sha256Model model.PowModel proofs.PowProofs
  gen.Constants_pow.

(* 1. all leading-zero counters in the code agree, for every byte string (not only 32-byte digests) ... *)
Theorem c19_counters_agree : forall dg,
  clz_node dg = clz dg /\ clz_store dg = clz dg /\ clz_cli dg = clz dg.
Proof. exact counters_agree. Qed.
Print Assumptions c19_counters_agree.

(* ... and the index/mask test of the bootstrap token agrees with them for every difficulty *)
Theorem c19_meets_difficulty_agrees : forall dg, bytes_ok dg -> forall d, 0 <= d ->
  meets_difficulty dg d = (d <=? clz dg).
Proof. exact meets_iff. Qed.
Print Assumptions c19_meets_difficulty_agrees.

(* what "at least d leading zero bits" means: the digest, read as a 256-bit big-endian number, is below 2^(256-d) *)
Theorem c19_leading_zero_bits_value : forall msg d, 0 <= d <= 256 ->
  (d <= clz (Sha256Spec.hash msg) <-> be_val (Sha256Spec.hash msg) < 2 ^ (256 - d)).
Proof. exact work_value_form. Qed.
Print Assumptions c19_leading_zero_bits_value.

(* 2. each validator accepts exactly the nonces whose digest over that surface's field encoding meets the target *)
Theorem c19_handshake_valid_iff : forall i r pub nonce d,
  handshake_pow_valid i r pub nonce d = true <->
  d = 0 \/ d <= clz (Sha256Spec.hash (handshake_preimage i r pub nonce)).
Proof. exact handshake_valid_iff. Qed.
Print Assumptions c19_handshake_valid_iff.

Theorem c19_cli_validator_is_node_validator : forall i r pub nonce d,
  transport_pow_valid i r pub nonce d = handshake_pow_valid i r pub nonce d.
Proof. exact transport_valid_is_node_valid. Qed.

Theorem c19_announce_valid_iff : forall a nonce d,
  announce_pow_valid a nonce d = true <-> d = 0 \/ d <= clz (Sha256Spec.hash (announce_preimage a nonce)).
Proof. exact announce_valid_iff. Qed.
Print Assumptions c19_announce_valid_iff.

(* the store validator caps the difficulty at kMaxStorePowDifficulty (regenerated from StoreProof.hpp) *)
Theorem c19_store_valid_iff : forall cid size fname nonce d,
  store_pow_valid cid size fname nonce d = true <->
  d = 0 \/ Z.min d max_store_pow_difficulty <= clz (Sha256Spec.hash (store_preimage cid size fname nonce)).
Proof. exact store_valid_iff. Qed.
Print Assumptions c19_store_valid_iff.

Theorem c19_token_valid_iff : forall cid chash ep nonce d, 0 <= d ->
  token_valid cid chash ep nonce d = true <-> d <= clz (Sha256Spec.hash (token_material cid chash ep nonce)).
Proof. exact token_valid_iff. Qed.
Print Assumptions c19_token_valid_iff.

(* 3. the encodings bind every field: two different field tuples never share a pre-image *)
Theorem c19_handshake_fields_bound : forall i r pub nonce i' r' pub' nonce',
  zlen i < two64 -> zlen r < two64 -> zlen i' < two64 -> zlen r' < two64 ->
  0 <= pub < two64 -> 0 <= pub' < two64 -> 0 <= nonce < two64 -> 0 <= nonce' < two64 ->
  handshake_preimage i r pub nonce = handshake_preimage i' r' pub' nonce' ->
  i = i' /\ r = r' /\ pub = pub' /\ nonce = nonce'.
Proof. exact handshake_preimage_injective. Qed.
Theorem c19_announce_fields_bound : forall a nonce a' nonce',
  announce_wf a -> announce_wf a' -> 0 <= nonce < two64 -> 0 <= nonce' < two64 ->
  announce_preimage a nonce = announce_preimage a' nonce' -> a = a' /\ nonce = nonce'.
Proof. exact announce_preimage_injective. Qed.
Theorem c19_store_fields_bound : forall cid size fname nonce cid' size' fname' nonce',
  length cid = 32%nat -> length cid' = 32%nat -> zlen fname < 4294967296 -> zlen fname' < 4294967296 ->
  0 <= size < two64 -> 0 <= size' < two64 -> 0 <= nonce < two64 -> 0 <= nonce' < two64 ->
  store_preimage cid size fname nonce = store_preimage cid' size' fname' nonce' ->
  cid = cid' /\ size = size' /\ fname = fname' /\ nonce = nonce'.
Proof. exact store_preimage_injective. Qed.
Theorem c19_token_fields_bound : forall cid chash ep nonce cid' chash' ep' nonce',
  length cid = 32%nat -> length cid' = 32%nat -> length chash = 32%nat -> length chash' = 32%nat ->
  0 <= nonce < two64 -> 0 <= nonce' < two64 ->
  token_material cid chash ep nonce = token_material cid' chash' ep' nonce' ->
  cid = cid' /\ chash = chash' /\ ep = ep' /\ nonce = nonce'.
Proof. exact token_material_injective. Qed.
Print Assumptions c19_announce_fields_bound.

(* 4. every nonce a solver returns is accepted by the matching validator (node and CLI), for every generator output *)
Theorem c19_handshake_solver_sound : forall fuel i r pub d start n,
  compute_handshake_pow fuel i r pub d start = Some n -> handshake_pow_valid i r pub n d = true.
Proof. exact handshake_solver_sound. Qed.
Theorem c19_cli_solver_accepted_by_node : forall fuel i r pub d start n,
  compute_transport_pow fuel i r pub d start = Some n -> handshake_pow_valid i r pub n d = true.
Proof. exact transport_solver_sound. Qed.
Theorem c19_announce_solver_sound : forall fuel a d start n,
  compute_announce_pow fuel a d start = Some n -> announce_pow_valid a n d = true.
Proof. exact announce_solver_sound. Qed.
Theorem c19_store_solver_sound : forall cid size fname d mx cands n,
  compute_store_pow cid size fname d mx cands = Some n -> store_pow_valid cid size fname n d = true.
Proof. exact store_solver_sound. Qed.
Theorem c19_token_solver_sound : forall cid chash ep d mx n,
  solve_token_challenge cid chash ep d mx = Some n ->
  token_valid cid chash ep n d = true /\
  (d <> 0 -> 0 <= n < mx /\ forall j, 0 <= j < n -> token_valid cid chash ep j d = false).
Proof. exact token_solver_sound. Qed.
Print Assumptions c19_token_solver_sound.

(* non-vacuity: a digest with exactly 11 leading zero bits meets 11 and not 12, on every counter *)
Example c19_example :
  let dg := [0; 16; 255] ++ repeat 7 29 in
  clz_node dg = 11 /\ clz_store dg = 11 /\ clz_cli dg = 11 /\
  meets_difficulty dg 11 = true /\ meets_difficulty dg 12 = false.
Proof. vm_compute. repeat split. Qed.
