(* C02 -- every lifetime the node creates lies inside the sanitised TTL window.
   Only statements here; proofs are in proofs/ConfigProofs.v.  The numeric bounds (1 s, 24 h, 5 s, 1 h, 24 bits,
   ChunkStore's 1 s floor) are regenerated from the C++ source on every run; the statements below spell the
   documented numbers out, so a changed constant breaks them.  Durations are arbitrary integers: negative, zero and
   values far beyond int32 are all covered. *)
Require Import ZArith List.
Import ListNotations.
Local Open Scope Z_scope.
From EphVerif Require Import lib.Bytes model.ConfigModel proofs.ConfigProofs gen.Constants_config.

(* for EVERY configuration: 1 s <= min <= max <= 24 h, default inside, rotation in [5 s, 1 h], difficulties <= 24 *)
Theorem c02_config_window : forall c,
  let s := sanitize_config c in
  1 <= min_ttl s /\ min_ttl s <= max_ttl s /\ max_ttl s <= 86400 /\
  min_ttl s <= default_ttl s <= max_ttl s /\
  5 <= rotation s <= 3600 /\
  (pow_a s <= 24 /\ pow_h s <= 24 /\ pow_s s <= 24) /\
  1 <= ann_interval s /\ ann_interval s <= burst_window s /\ (0 <= burst_limit c -> 1 <= burst_limit s).
Proof. exact config_window. Qed.
Print Assumptions c02_config_window.

Theorem c02_sanitize_idempotent : forall c, 0 <= burst_limit c -> sanitize_config (sanitize_config c) = sanitize_config c.
Proof. exact sanitize_idempotent. Qed.

(* whatever TTL a caller requests, the chunk record, the manifest expiry, the shard record and the node's own
   announcement all live for the same duration, inside [min, max] of the effective configuration *)
Theorem c02_store_lifetimes : forall c ttl,
  let s := sanitize_config c in let l := store_lifetimes s ttl in
  min_ttl s <= l_chunk l <= max_ttl s /\ min_ttl s <= l_manifest l <= max_ttl s /\
  min_ttl s <= l_shards l <= max_ttl s /\ min_ttl s <= l_announce l <= max_ttl s /\
  1 <= min_ttl s /\ max_ttl s <= 86400.
Proof. exact node_store_lifetimes. Qed.
Print Assumptions c02_store_lifetimes.

Theorem c02_store_lifetimes_equal_and_honoured : forall c ttl, window_ok c ->
  let l := store_lifetimes c ttl in
  min_ttl c <= l_chunk l <= max_ttl c /\
  l_manifest l = l_chunk l /\ l_shards l = l_chunk l /\ l_announce l = l_chunk l /\
  (min_ttl c <= ttl <= max_ttl c -> l_chunk l = ttl).
Proof. exact store_lifetimes_in_window. Qed.

(* the control plane lets a STORE through only with a TTL inside the window, and what it lets through is stored for
   exactly that long; a header that is not a decimal uint64, or one of 2^63 and more, is refused *)
Theorem c02_control_gate : forall c hdr t, store_ttl_gate c hdr = GateOk t -> min_ttl c <= t <= max_ttl c.
Proof. exact gate_accepts_only_window. Qed.
Theorem c02_control_gate_then_store : forall c hdr t, window_ok c -> store_ttl_gate c hdr = GateOk t ->
  let l := store_lifetimes c t in l_chunk l = t /\ l_manifest l = t /\ l_shards l = t /\ l_announce l = t.
Proof. exact gate_then_store. Qed.
Theorem c02_control_gate_huge : forall c text v, window_ok c -> parse_uint64 text = Some v -> two63 <= v ->
  store_ttl_gate c (Some text) = GateOutOfRange.
Proof. exact gate_huge_refused. Qed.
Print Assumptions c02_control_gate.

(* non-vacuity: min above max, a negative default and absurd difficulties *)
Example c02_example :
  let s := sanitize_config {| min_ttl := 100000; max_ttl := -5; default_ttl := -1; rotation := 0; ann_interval := -3;
                              burst_limit := 0; burst_window := 999999; pow_a := 255; pow_h := 25; pow_s := 24 |} in
  (min_ttl s, max_ttl s, default_ttl s, rotation s, pow_a s, pow_h s) = (86400, 86400, 86400, 5, 24, 24) /\
  l_chunk (store_lifetimes s (-7)) = 86400 /\
  store_ttl_gate s (Some [56; 54; 52; 48; 48]) = GateOk 86400 /\ store_ttl_gate s (Some [45; 49]) = GateInvalid.
Proof. vm_compute. repeat split. Qed.
