(* C37 -- structured log records are single, faithful JSON lines.
   Only statements here; proofs are in proofs/LoggerProofs.v. *)
Require Import ZArith List Lia.
Import ListNotations.
Local Open Scope Z_scope.
From EphVerif Require Import lib.Bytes model.LoggerModel proofs.LoggerProofs.

(* For every timestamp, level, event name and field list over arbitrary bytes (so in particular any valid
   UTF-8, quotes, backslashes, newlines, control bytes), the rendered record is read back -- by a reader that
   follows RFC 8259 section 7 for strings and the fixed record shape -- as exactly the strings logged. *)
Theorem c37_faithful : forall ts lvl ev fs, bytes_ok ts -> bytes_ok lvl -> bytes_ok ev -> Forall field_ok fs ->
  parse_record (render ts lvl ev fs) = Some {| r_ts := ts; r_level := lvl; r_event := ev; r_fields := fs |}.
Proof. exact parse_render. Qed.
Print Assumptions c37_faithful.

(* ... and it is exactly one line: a body without any byte below 0x20, then the newline *)
Theorem c37_one_line : forall ts lvl ev fs, bytes_ok ts -> bytes_ok lvl -> bytes_ok ev -> Forall field_ok fs ->
  exists body, render ts lvl ev fs = body ++ [10] /\ Forall (fun b => 32 <= b < 256) body.
Proof. exact render_one_line. Qed.
Print Assumptions c37_one_line.

(* the string escaper alone: escaped text + closing quote decodes to the input, whatever follows *)
Theorem c37_escape_inverse : forall s rest, bytes_ok s -> str_body (escape s ++ [34] ++ rest) = Some (s, rest).
Proof. exact str_body_escape. Qed.
Print Assumptions c37_escape_inverse.

(* bytes >= 0x80 pass through unchanged and ASCII maps to ASCII: valid UTF-8 in, valid UTF-8 out *)
Theorem c37_utf8_untouched : forall c, byte_ok c ->
  (128 <= c -> esc_byte c = [c]) /\ (c < 128 -> Forall (fun b => 0 <= b < 128) (esc_byte c)).
Proof. exact esc_byte_utf8. Qed.

(* non-vacuity and a reading test of the reader itself on text this code did not produce *)
Example c37_examples :
  escape [34; 92; 10; 1; 31; 127; 195; 169] = [92; 34; 92; 92; 92; 110; 92; 117; 48; 48; 48; 49; 92; 117; 48; 48; 49; 70; 127; 195; 169] /\
  str_body [92; 117; 48; 48; 52; 49; 92; 47; 34; 125] = Some ([65; 47], [125]) /\
  str_body [10; 34] = None /\
  parse_record (render [50] [105] [101; 34; 10] [([107], [92]); ([], [])]) =
    Some {| r_ts := [50]; r_level := [105]; r_event := [101; 34; 10]; r_fields := [([107], [92]); ([], [])] |}.
Proof. repeat split; vm_compute; reflexivity. Qed.
