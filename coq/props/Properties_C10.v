(* C10 -- Shamir sharing reconstructs from any threshold subset and rejects bad sets.
   Only statements here; proofs are in proofs/ShamirProofs.v, proofs/GfPoly.v and proofs/ShamirReconstruct.v.  The log/antilog tables are built inside the kernel by the
   same loops as build_exp_table / build_log_table from the reduction polynomial in the source (regenerated). *)
Require Import ZArith List.
Import ListNotations.
Local Open Scope Z_scope.
From EphVerif Require Import lib.Bytes model.ShamirModel proofs.ShamirProofs proofs.GfPoly proofs.ShamirReconstruct gen.Constants_shamir.

(* 1. the share arithmetic is a genuine field on the 256 byte values: (bytes, xor, gf_mul) *)
Theorem c10_add_comm : forall a b, gf_add a b = gf_add b a.
Proof. exact gf_add_comm. Qed.
Theorem c10_add_assoc : forall a b c, gf_add (gf_add a b) c = gf_add a (gf_add b c).
Proof. exact gf_add_assoc. Qed.
Theorem c10_add_zero : forall a, gf_add 0 a = a.
Proof. exact gf_add_0_l. Qed.
Theorem c10_add_inverse : forall a, gf_add a a = 0.
Proof. exact gf_add_self. Qed.
Theorem c10_closed : forall a b, byte_ok a -> byte_ok b -> byte_ok (gf_add a b) /\ byte_ok (gf_mul a b).
Proof. intros a b Ha Hb. split; [apply gf_add_byte | apply gf_mul_byte]; assumption. Qed.
Theorem c10_mul_comm : forall a b, gf_mul a b = gf_mul b a.
Proof. exact gf_mul_comm. Qed.
Theorem c10_mul_assoc : forall a b c, byte_ok a -> byte_ok b -> byte_ok c -> gf_mul (gf_mul a b) c = gf_mul a (gf_mul b c).
Proof. exact gf_mul_assoc. Qed.
Theorem c10_mul_one : forall a, byte_ok a -> gf_mul 1 a = a.
Proof. exact gf_mul_1_l. Qed.
Theorem c10_distributive : forall a b c, byte_ok a -> byte_ok b -> byte_ok c ->
  gf_mul a (gf_add b c) = gf_add (gf_mul a b) (gf_mul a c).
Proof. exact gf_distr_l. Qed.
Theorem c10_mul_inverse : forall a, 1 <= a <= 255 -> 1 <= gf_inv a <= 255 /\ gf_mul a (gf_inv a) = 1.
Proof. exact gf_inv_spec. Qed.
Theorem c10_no_zero_divisors : forall a b, byte_ok a -> byte_ok b -> gf_mul a b = 0 -> a = 0 \/ b = 0.
Proof. exact gf_mul_eq_0. Qed.
Print Assumptions c10_distributive.
Print Assumptions c10_mul_assoc.
Print Assumptions c10_mul_inverse.
Theorem c10_polynomial_is_0x11D : gf_polynomial = 285 /\ gexp 1 = 2.
Proof. exact poly_is_11d. Qed.

Theorem c10_division : forall a b, byte_ok a -> byte_ok b ->
  (b = 0 -> gf_div a b = Throw 1) /\
  (b <> 0 -> exists q, gf_div a b = Val q /\ byte_ok q /\ gf_mul q b = a /\ q = gf_mul a (gf_inv b)).
Proof. exact gf_div_spec. Qed.

(* 2. splitting: refused unless 1 <= t <= n; otherwise n shares with the distinct non-zero indices 1..n (the model's
   loop is the repaired one: the counter does not wrap at 255), each value byte on the byte's polynomial *)
Theorem c10_split_refuses : forall secret t n rnd, t = 0 \/ n = 0 \/ n < t -> split secret t n rnd = Throw 1.
Proof. exact split_refuses. Qed.
Theorem c10_split_indices : forall secret t n rnd, 1 <= t <= n -> n <= 255 ->
  exists shares, split secret t n rnd = Val shares /\
                 map s_index shares = map Z.of_nat (seq 1 (Z.to_nat n)) /\
                 zlen shares = n /\ NoDup (map s_index shares) /\ Forall (fun s => 1 <= s_index s <= 255) shares.
Proof. exact split_indices. Qed.
Theorem c10_share_values_on_polynomial : forall secret k rnd indices b j, (b < length secret)%nat -> (j < length indices)%nat ->
  nth j (nth b (split_bytes secret k rnd indices) []) 0 =
  evaluate_polynomial (nth j indices 0) (nth b secret 0) (firstn k (skipn (b * k) rnd)).
Proof. exact split_bytes_nth. Qed.
Print Assumptions c10_split_indices.

(* 3. reconstruction refuses bad sets with invalid_argument and never fails on good ones *)
Theorem c10_combine_refuses_too_few : forall shares t, zlen shares < t -> combine shares t = Throw 1.
Proof. exact combine_refuses_too_few. Qed.
Theorem c10_combine_refuses_repeated_index : forall shares t,
  ~ NoDup (map s_index (firstn (Z.to_nat t) shares)) -> combine shares t = Throw 1.
Proof. exact combine_refuses_repeated_index. Qed.
Theorem c10_combine_total_on_good_sets : forall shares t, 0 <= t <= zlen shares ->
  Forall byte_ok (map s_index shares) -> NoDup (map s_index (firstn (Z.to_nat t) shares)) ->
  exists secret, combine shares t = Val secret /\ length secret = 32%nat.
Proof. exact combine_total_on_good_sets. Qed.
Print Assumptions c10_combine_total_on_good_sets.

(* 4. THE reconstruction statement (full strength), for every threshold: any t of the shares `split` hands out, with distinct
   indices, in any order, whatever the random coefficients were, are combined into the secret *)
Definition c10_reconstruct_statement : Prop :=
  forall secret t n rnd shares subset,
    length secret = 32%nat -> Forall byte_ok secret -> Forall byte_ok rnd -> 1 <= t <= n -> n <= 255 ->
    split secret t n rnd = Val shares ->
    zlen subset = t -> NoDup (map s_index subset) -> (forall s, In s subset -> In s shares) ->
    combine subset t = Val secret.
Theorem c10_reconstruct : c10_reconstruct_statement.
Proof. exact reconstruct. Qed.
Print Assumptions c10_reconstruct.
(* the algebra behind it (proofs/GfPoly.v): over the field of section 1 a polynomial with at most as many coefficients as there
   are distinct points is determined by its values there -- the Lagrange interpolant through those values agrees with it
   everywhere; evaluate_polynomial is that polynomial's evaluation, interpolate the interpolant's value at 0 *)
Theorem c10_interpolation_is_unique : forall pts p, (length p <= length pts)%nat -> distinct (map fst pts) ->
  (forall x y, In (x, y) pts -> feq y (eval p x)) -> forall z, feq (eval (lag [] pts) z) (eval p z).
Proof. exact lagrange_unique. Qed.
Print Assumptions c10_interpolation_is_unique.
(* threshold 1 as a special case (the share is the secret) *)
Theorem c10_reconstruct_threshold_1 : forall x secret, length secret = 32%nat -> Forall byte_ok secret ->
  combine [{| s_index := x; s_value := secret |}] 1 = Val secret.
Proof. exact reconstruct_threshold_1. Qed.

(* non-vacuity: 3-of-5 over a two-byte pattern, shares 5,2,4 reconstruct *)
Example c10_example :
  let secret := repeat 7 16 ++ repeat 200 16 in
  match split secret 3 5 (map (fun i => Z.of_nat i * 37 mod 256) (seq 0 64)) with
  | Val shares => combine [nth 4 shares {| s_index := 0; s_value := [] |}; nth 1 shares {| s_index := 0; s_value := [] |};
                           nth 3 shares {| s_index := 0; s_value := [] |}] 3 = Val secret
  | Throw _ => False
  end.
Proof. vm_compute. reflexivity. Qed.
