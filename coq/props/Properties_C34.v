(* C34 -- auto-advertise never publishes non-routable addresses unless allowed.
   Only statements here; proofs are in proofs/AdvertiseProofs.v.  private_host is is_private_or_reserved_host on the text of a
   host; fmt4 writes an IPv4 address as a dotted quad; non_routable4 is membership of the address, as a number, in the
   reserved blocks of the property.  refresh / preferred / hints are refresh_advertised_endpoints,
   preferred_control_endpoints and the discovery hints store_chunk derives from them.  The model follows the code after the
   four fix: commits. *)
Require Import ZArith List Lia Bool.
Import ListNotations.
Local Open Scope Z_scope.
From EphVerif Require Import lib.Bytes model.AdvertiseModel proofs.AdvertiseProofs.

(* IPv4: a dotted quad is classified non-publishable exactly when the address lies in 0/8, 10/8, 100.64/10, 127/8,
   169.254/16, 172.16/12, 192.0.2/24, 192.168/16, 198.18/15, 198.51.100/24, 203.0.113/24 or 224/3 -- for all 2^32 addresses *)
Theorem c34_classifier_ipv4 : forall ip, octets_ok ip -> private_host (fmt4 ip) = non_routable4 (v4 ip).
Proof. exact classifier_ipv4. Qed.
Print Assumptions c34_classifier_ipv4.
Theorem c34_block_sizes : 16777216 = 2 ^ (32 - 8) /\ 4194304 = 2 ^ (32 - 10) /\ 65536 = 2 ^ (32 - 16) /\ 1048576 = 2 ^ (32 - 12)
  /\ 256 = 2 ^ (32 - 24) /\ 131072 = 2 ^ (32 - 15) /\ 536870912 = 2 ^ (32 - 3).
Proof. exact block_sizes. Qed.

(* the IPv4-mapped IPv6 form "::ffff:a.b.c.d" is judged by the address it embeds -- for all 2^32 of them *)
Theorem c34_classifier_mapped : forall ip, octets_ok ip -> private_host (s_mapped ++ fmt4 ip) = non_routable4 (v4 ip).
Proof. exact classifier_mapped. Qed.
Print Assumptions c34_classifier_mapped.

(* IPv6 text (after stripping brackets and zone id, lower-cased): "::", "::1" and everything that starts with fc, fd
   (fc00::/7), fe8, fe9, fea, feb (fe80::/10), 2001:db8 (documentation) or ff (multicast) is non-publishable.  That the
   canonical text of every address of those blocks starts that way is a fact about inet_ntop, tied by correspondence. *)
Theorem c34_classifier_ipv6_text : forall host, let n := normalize_ipv6 host in
  n = [] \/ n = s_unspec \/ n = s_loop \/
  starts_with s_fc n = true \/ starts_with s_fd n = true \/
  starts_with s_fe8 n = true \/ starts_with s_fe9 n = true \/ starts_with s_fea n = true \/ starts_with s_feb n = true \/
  starts_with s_doc n = true \/ starts_with s_ff n = true ->
  private6 host = true.
Proof. exact private6_prefixes. Qed.

(* publication: whatever NAT discovery reported, with private addresses not allowed every automatically generated advertised
   endpoint and every automatically generated manifest hint has a host the classifier lets through *)
Theorem c34_published : forall c echo tp ext stun_ok,
  allow_private c = false ->
  let '(advd, cands, conflict) := refresh c echo tp ext tp stun_ok in
  (forall h p, In (h, p, false) advd -> private_host h = false) /\
  (forall h p, In (h, p, false) (hints (preferred c advd cands conflict tp ext tp true)) -> private_host h = false).
Proof.
  intros c echo tp ext stun_ok Hap.
  pose proof (refresh_good c echo tp ext tp stun_ok) as R.
  destruct (refresh c echo tp ext tp stun_ok) as [[advd cands] conflict]. destruct R as [Ga Gc].
  assert (K : forall l, Good (allow_private c) l -> forall h p, In (h, p, false) l -> private_host h = false).
  { intros l G h p Hin. specialize (G h p Hin). unfold ok in G. rewrite Hap in G. cbn [orb] in G. destruct (private_host h); [discriminate | reflexivity]. }
  split; [apply K; exact Ga|].
  intros h p Hin. apply hints_in in Hin. eapply K; [|exact Hin]. apply preferred_good; assumption.
Qed.
Print Assumptions c34_published.

(* with auto-advertise off, and in warn mode while the candidates conflict, nothing automatic is published at all *)
Theorem c34_withheld : forall c echo tp ext stun_ok,
  let '(advd, cands, conflict) := refresh c echo tp ext tp stun_ok in
  (mode c =? 2) || ((mode c =? 1) && conflict) = true ->
  (forall h p m, In (h, p, m) advd -> m = true) /\
  (forall h p m, In (h, p, m) (hints (preferred c advd cands conflict tp ext tp true)) -> m = true).
Proof.
  intros c echo tp ext stun_ok.
  pose proof (refresh_suppressed c echo tp ext tp stun_ok) as R.
  destruct (refresh c echo tp ext tp stun_ok) as [[advd cands] conflict]. intros Hs. specialize (R Hs).
  split; [exact R|]. intros h p m Hin. apply hints_in in Hin.
  eapply (preferred_suppressed c advd cands conflict tp ext tp true Hs R). exact Hin.
Qed.
Print Assumptions c34_withheld.

(* non-vacuity: a private STUN result with private not allowed leaves nothing automatic; the same with private allowed is
   published; the historical misses are now classified *)
Example c34_examples :
  let c := mkNcfg 0 false [] 41000 [] None 0 in
  let c' := mkNcfg 0 true [] 41000 [] None 0 in
  let s10 := [49; 48; 46; 49; 46; 50; 46; 51] in
  let '(a1, c1, f1) := refresh c [49] 40000 s10 40000 true in
  let '(a2, c2, f2) := refresh c' [49] 40000 s10 40000 true in
  (zlen a1, zlen (preferred c a1 c1 f1 40000 s10 40000 true), zlen a2,
   private_host [49; 57; 56; 46; 49; 57; 46; 48; 46; 49],
   private_host (s_mapped ++ [49; 48; 46; 48; 46; 48; 46; 49])) = (0, 0, 1, true, true).
Proof. vm_compute. reflexivity. Qed.
