(* C28 -- STORE admission enforces size, TTL, PoW and an unforgeable rate limit.
   Only statements here; proofs are in proofs/ControlProofs.v.  Size: parse_request refuses a PAYLOAD-LENGTH above the cap
   before reading the body (tied by C02's harness mode and this family's correspondence); TTL window: Properties_C02
   (c02_control_gate); store PoW: Properties_C19 (c19_store_valid_iff).  Here: which identity is limited, and the limiter. *)
Require Import ZArith List.
Import ListNotations.
Local Open Scope Z_scope.
From EphVerif Require Import lib.Bytes model.Sha256Model model.PowModel model.FilenameModel model.ControlModel proofs.ControlProofs
  proofs.PowProofs gen.Constants_control gen.Constants_pow.

(* without a configured control token the limiter key is the client address, whatever TOKEN header is sent *)
Theorem c28_identity_ignores_client_token : forall remote p q, rate_identity None remote p = rate_identity None remote q.
Proof. exact rate_identity_ignores_token_when_unconfigured. Qed.
Theorem c28_identity_is_the_address : forall remote p, rate_identity None remote p = (remote, None).
Proof. reflexivity. Qed.

(* the sliding-window limiter: P = every time a request of one identity was let through.  A request at now' is let through
   only if, with it, at most `limit` accepted requests lie in [now' - window, now'], and it is refused only if `limit` already do *)
Theorem c28_limiter : forall w limit P now now', 0 <= w -> now <= now' ->
  let hist := filter (in_window w now) P in
  let '(ok, hist') := allow w limit hist now' in
  let P' := if ok then P ++ [now'] else P in
  hist' = filter (in_window w now') P' /\
  (ok = true -> zlen (filter (in_window w now') P') <= Z.max limit 1) /\
  (ok = false -> limit <= zlen (filter (in_window w now') P)).
Proof. exact limiter_step. Qed.
Print Assumptions c28_limiter.

(* ---- admission of one STORE (parse_request's length check, then handle_store's TTL and PoW checks) ---- *)
(* code 0 = OK_STORE.  An accepted STORE declared a length that parses, is within the cap and is covered by the body; its TTL
   (given or default) lies in the configured window; and with PoW enabled it carried a nonce that the validator accepts for
   (SHA-256 of the payload, payload size, sanitised PATH) *)
Theorem c28_accept_sound : forall cfg declared body ttl path pow,
  store_admission cfg declared body ttl path pow = 0 ->
  exists s n, declared = Some s /\ parse_u64 s = Some n /\ n <= sc_cap cfg /\ n <= zlen body /\
    let payload := firstn (Z.to_nat n) body in
    (exists t, (match ttl with
                | None => t = sc_default_ttl cfg
                | Some ts => exists v, parse_u64 ts = Some v /\ t = (if v <? 9223372036854775808 then v else v - 18446744073709551616)
                end) /\ sc_min_ttl cfg <= t <= sc_max_ttl cfg) /\
    (sc_pow cfg <= 0 \/
     exists ps nonce, pow = Some ps /\ parse_u64 ps = Some nonce /\
       store_pow_valid (sha256 payload) (zlen payload)
         (match path with Some p => hint_sanitize p | None => [] end) nonce (sc_pow cfg) = true).
Proof. exact store_accept_sound. Qed.
Print Assumptions c28_accept_sound.

(* what the validator demands (C19): min(d, 24) leading zero bits of SHA-256 over the store preimage *)
Theorem c28_pow_validator : forall cid size fname nonce d,
  store_pow_valid cid size fname nonce d = true <->
  d = 0 \/ Z.min d max_store_pow_difficulty <= clz (Sha256Spec.hash (store_preimage cid size fname nonce)).
Proof. exact store_valid_iff. Qed.

(* a declared length above the cap is refused with the same answer whatever follows: the body is not read *)
Theorem c28_oversize_refused_before_body : forall cfg s n body body' ttl path pow ttl' path' pow',
  parse_u64 s = Some n -> sc_cap cfg < n ->
  store_admission cfg (Some s) body ttl path pow = 2 /\
  store_admission cfg (Some s) body ttl path pow = store_admission cfg (Some s) body' ttl' path' pow'.
Proof. exact oversize_refused_before_body. Qed.

Theorem c28_pow_required : forall cfg declared body ttl path pow,
  0 < sc_pow cfg -> store_admission cfg declared body ttl path pow = 0 -> pow <> None.
Proof. exact store_pow_enforced. Qed.

Theorem c28_length_header : forall s v, parse_u64 s = Some v ->
  s <> [] /\ forallb is_digit s = true /\ 0 <= v < 18446744073709551616 /\ digits_value 0 s = Some v.
Proof. exact parse_u64_sound. Qed.

(* non-vacuity: a 3-byte STORE at difficulty 0 is admitted; the same one at difficulty 9 without a nonce is not; 17 bytes
   declared against a cap of 16 is refused although no body byte is there *)
Example c28_admission_example :
  let cfg0 := mkStoreCfg 0 30 21600 600 16 in let cfg9 := mkStoreCfg 9 30 21600 600 16 in
  (store_admission cfg0 (Some [51]) [1; 2; 3] (Some [54; 48]) None None,
   store_admission cfg9 (Some [51]) [1; 2; 3] None None None,
   store_admission cfg0 (Some [49; 55]) [] None None None,
   store_admission cfg0 (Some [51]) [1; 2; 3] (Some [50; 57]) None None) = (0, 7, 2, 6).
Proof. vm_compute. reflexivity. Qed.

Theorem c28_constants : store_rate_window = 30 /\ store_rate_limit = 6 /\ fetch_rate_window = 30 /\ fetch_rate_limit = 12.
Proof. exact limiter_constants. Qed.

(* non-vacuity: seven STOREs in the same second from one address with seven different TOKEN headers *)
Example c28_example :
  rl_run None 7 {| rl_now := 1000; rl_store := []; rl_fetch := [] |}
    [0; 0; 1; 1; 1; 97;  0; 0; 1; 1; 1; 98;  0; 0; 1; 1; 1; 99;  0; 0; 1; 1; 1; 100;  0; 0; 1; 1; 1; 101;  0; 0; 1; 1; 1; 102;  0; 0; 1; 1; 1; 103]
  = [1; 1; 1; 1; 1; 1; 0].
Proof. vm_compute. reflexivity. Qed.
