(* C28 -- STORE admission enforces size, TTL, PoW and an unforgeable rate limit.
   Only statements here; proofs are in proofs/ControlProofs.v.  Size: parse_request refuses a PAYLOAD-LENGTH above the cap
   before reading the body (tied by C02's harness mode and this family's correspondence); TTL window: Properties_C02
   (c02_control_gate); store PoW: Properties_C19 (c19_store_valid_iff).  Here: which identity is limited, and the limiter. *)
Require Import ZArith List.
Import ListNotations.
Local Open Scope Z_scope.
From EphVerif Require Import lib.Bytes model.ControlModel proofs.ControlProofs gen.Constants_control.

(* without a configured control token the limiter key is the client address, whatever TOKEN header is sent *)
Theorem c28_identity_ignores_client_token : forall remote p q, rate_identity None remote p = rate_identity None remote q.
Proof. exact rate_identity_ignores_token_when_unconfigured. Qed.
Theorem c28_identity_is_the_address : forall remote p, rate_identity None remote p = (remote, None).
Proof. reflexivity. Qed.

(* the sliding-window limiter: P = every time a request of one identity was let through.  A request at now' is let through
   only if, with it, at most `limit` accepted requests lie in [now' - window, now'], and it is refused only if `limit` already do *)
Theorem c28_limiter : forall w limit P now now', 0 <= w -> now <= now' ->
  let hist := filter (in_window w now) P in
  let '(ok, hist') := allow w limit hist now' in
  let P' := if ok then P ++ [now'] else P in
  hist' = filter (in_window w now') P' /\
  (ok = true -> zlen (filter (in_window w now') P') <= Z.max limit 1) /\
  (ok = false -> limit <= zlen (filter (in_window w now') P)).
Proof. exact limiter_step. Qed.
Print Assumptions c28_limiter.

Theorem c28_constants : store_rate_window = 30 /\ store_rate_limit = 6 /\ fetch_rate_window = 30 /\ fetch_rate_limit = 12.
Proof. exact limiter_constants. Qed.

(* non-vacuity: seven STOREs in the same second from one address with seven different TOKEN headers *)
Example c28_example :
  rl_run None 7 {| rl_now := 1000; rl_store := []; rl_fetch := [] |}
    [0; 0; 1; 1; 1; 97;  0; 0; 1; 1; 1; 98;  0; 0; 1; 1; 1; 99;  0; 0; 1; 1; 1; 100;  0; 0; 1; 1; 1; 101;  0; 0; 1; 1; 1; 102;  0; 0; 1; 1; 1; 103]
  = [1; 1; 1; 1; 1; 1; 0].
Proof. vm_compute. reflexivity. Qed.
