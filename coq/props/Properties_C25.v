(* C25 -- relay bridges deliver bytes only to the bridged partner.
   Only statements here; proofs are in proofs/RelayProofs.v.  `run_ops init ops` is the relay server after ANY history of
   client actions (a new connection, bytes sent by a client -- commands, identity bytes, data, garbage, in any split --, a
   client disconnecting), each handled completely before the next; `step s o` handles one more action and returns what
   every client receives because of it.  Live = the server holds an open session for the client.  The model follows the
   code after the fix: commit (REGISTER is refused on a session a connector has claimed). *)
Require Import ZArith List Lia Bool.
Import ListNotations.
Local Open Scope Z_scope.
From EphVerif Require Import lib.Bytes model.RelayModel proofs.RelayProofs.

(* in every reachable state: pairings are symmetric, between two different open sessions in matching states (registered +
   connector waiting for its identity, or both bridged) -- so a registered peer is claimed by at most one connector at a
   time; the registry names only open, registered, unclaimed sessions, one per id; the server never hangs *)
Theorem c25_pairing_invariant : forall ops, Inv (run_ops init ops).
Proof. intros ops. apply reachable_inv. exact Inv_init. Qed.
Print Assumptions c25_pairing_invariant.
Theorem c25_pairings_are_symmetric : forall ops i j,
  let s := run_ops init ops in
  Live s i -> partner (get s i) = Some j ->
  Live s j /\ j <> i /\ partner (get s j) = Some i /\ pair_states (st (get s i)) (st (get s j)).
Proof. intros ops i j. cbv zeta. apply (i_sym _ (reachable_inv ops init Inv_init)). Qed.

(* delivery: what a bridged client sends reaches its partner whole (in order: actions are handled one after the other), and
   no other client receives anything; nothing else about the sessions changes *)
Theorem c25_bridged_bytes_reach_only_the_partner : forall ops i data,
  let s := run_ops init ops in
  Flushed s -> Live s i -> st (get s i) = Bridged ->
  exists j, partner (get s i) = Some j /\ Live s j /\ j <> i /\ st (get s j) = Bridged /\ partner (get s j) = Some i /\
    let r := step s (Send i data) in
    nth j (snd r) [] = data /\ (forall k, k <> j -> nth k (snd r) [] = []) /\ SkEq s (fst r).
Proof. intros ops i data. cbv zeta. intros F. apply bridged_send_delivers; [apply reachable_inv; exact Inv_init | exact F]. Qed.
Print Assumptions c25_bridged_bytes_reach_only_the_partner.

(* isolation: whatever client i sends, in whatever state, another client k receives something only if after that action k
   is bridged to i -- nothing relayed reaches a client before its own bridge exists, nor from anyone but its partner *)
Theorem c25_only_the_bridge_partner_receives : forall ops i data k,
  let s := run_ops init ops in
  Flushed s -> k <> i -> nth k (snd (step s (Send i data))) [] <> [] ->
  let s' := fst (step s (Send i data)) in
  Live s' k /\ Live s' i /\ st (get s' k) = Bridged /\ st (get s' i) = Bridged /\ partner (get s' k) = Some i /\ partner (get s' i) = Some k.
Proof. intros ops i data k. cbv zeta. intros F. apply only_the_bridge_partner_receives; [apply reachable_inv; exact Inv_init | exact F]. Qed.
Print Assumptions c25_only_the_bridge_partner_receives.
(* connections and disconnects make nobody receive anything *)
Theorem c25_quiet_events : forall s o k, Flushed s -> (o = Connect \/ exists i, o = Disconnect i) -> nth k (snd (step s o)) [] = [].
Proof. exact quiet_events. Qed.
(* every state between two actions is flushed (what the server queued has been written out) *)
Theorem c25_flushed_between_actions : forall s o, Flushed (fst (step s o)).
Proof. exact step_flushed. Qed.

(* disconnect: when one side of an established bridge leaves, the other side's session is closed by the same event *)
Theorem c25_disconnect_closes_the_partner : forall ops i,
  let s := run_ops init ops in
  Live s i -> st (get s i) = Bridged ->
  exists j, partner (get s i) = Some j /\ Live s j /\
    ~ Live (fst (step s (Disconnect i))) i /\ ~ Live (fst (step s (Disconnect i))) j.
Proof. intros ops i. cbv zeta. apply bridged_disconnect_closes_both. apply reachable_inv. exact Inv_init. Qed.
Print Assumptions c25_disconnect_closes_the_partner.

(* non-vacuity: A registers, B connects to A and sends its identity and "hi" in one go, A answers "yo", B leaves.
   ids: 64 times 'a' / 'b' *)
Definition ida := repeat 97 64.  Definition idb := repeat 98 64.
Definition ident := map Z.of_nat (seq 128 32).
Example c25_examples :
  let ops := [Connect; Connect; Send 0 (t_REGISTER ++ [32] ++ ida ++ [10]); Send 1 (t_CONNECT ++ [32] ++ idb ++ [32] ++ ida ++ [10]);
              Send 1 (ident ++ [104; 105])] in
  let s := run_ops init ops in
  (map st (clients s), map partner (clients s), snd (step s (Send 0 [121; 111])),
   map alive (clients (fst (step s (Disconnect 1)))), reg s)
  = ([Bridged; Bridged], [Some 1%nat; Some 0%nat], [[]; [121; 111]], [false; false], []).
Proof. vm_compute. reflexivity. Qed.
