(* C24 -- fetch scheduling respects limits, backs off, and always terminates.
   Only statements here; proofs are in proofs/FetchProofs.v.  `run_ops c expires (init, t0) ops` is the scheduler state
   after ANY sequence of assigned-fetch announcements (re-announces of pending or in-flight fetches included), chunk
   arrivals, peers becoming unreachable, ticks and clock advances, for any retry / back-off / parallelism settings c.
   fetches = pending_chunk_fetches_, counters = active_peer_requests_, cnt p = number of fetches in flight at peer p.
   The model follows the code after the two fix: commits. *)
Require Import ZArith List Lia Bool.
Import ListNotations.
Local Open Scope Z_scope.
From EphVerif Require Import lib.Bytes model.FetchModel proofs.FetchProofs proofs.FetchDropProofs.

(* in every reachable state: one record per chunk; the per-peer counter IS the number of that peer's requests in flight; and it
   never exceeds fetch_max_parallel_requests (0 = unlimited) *)
Theorem c24_limits_and_counters : forall c expires ops t0,
  let s := fst (run_ops c expires (init, t0) ops) in
  NoDup (chunks (fetches s)) /\
  (forall p, cget p (counters s) = cnt p (fetches s)) /\
  (0 < max_parallel c -> forall p, cnt p (fetches s) <= max_parallel c).
Proof.
  intros c expires ops t0. cbv zeta.
  destruct (reachable_inv c expires ops (init, t0) (Inv_init c)) as [Hd [Ha Hl]].
  split; [exact Hd|]. split; [exact Ha|]. intros H p. rewrite <- Ha. apply Hl. exact H.
Qed.
Print Assumptions c24_limits_and_counters.

(* a peer's in-flight count is back at zero whenever none of its requests is outstanding *)
Theorem c24_count_returns_to_zero : forall c expires ops t0 p,
  let s := fst (run_ops c expires (init, t0) ops) in
  (forall f, In f (fetches s) -> f_peer f = p -> f_in_flight f = false) -> cget p (counters s) = 0.
Proof. intros c expires ops t0 p. cbv zeta. apply count_zero_when_idle with (c := c). apply reachable_inv. apply Inv_init. Qed.
Print Assumptions c24_count_returns_to_zero.

(* retry delays: the first is the initial back-off, each further failed attempt doubles it (the code stops doubling at
   2^8), and a configured maximum caps it *)
Theorem c24_backoff_value : forall c k, 1 <= k ->
  backoff_s c k =
    let base := if initial_backoff_s c <=? 0 then 1 else initial_backoff_s c in
    let raw := base * 2 ^ (Z.min (k - 1) 8) in
    if (0 <? max_backoff_s c) && (max_backoff_s c <? raw) then max_backoff_s c else raw.
Proof. exact backoff_value. Qed.
Theorem c24_backoff_doubles : forall c k, 1 <= k < 9 -> max_backoff_s c = 0 -> backoff_s c (k + 1) = 2 * backoff_s c k.
Proof. exact backoff_doubles. Qed.
Theorem c24_backoff_capped : forall c k, 1 <= k -> 0 < max_backoff_s c -> backoff_s c k <= max_backoff_s c.
Proof. exact backoff_capped. Qed.
Theorem c24_failed_send : forall c k now, next_attempt c k false now =
  if (0 <? attempt_limit c) && (attempt_limit c <=? k) then None else Some (now + backoff_s c k * ns).
Proof. exact failed_send_schedule. Qed.

(* dropping: clear_pending_fetch removes exactly the named fetch, and everything a pass marks as completed is gone after it *)
Theorem c24_cleared_fetches_are_gone : forall l s ch, In ch l -> ffind ch (fetches (fold_left clear l s)) = None.
Proof. exact fold_clear_removes. Qed.

(* ... in particular, in every reachable state a pass leaves no fetch whose chunk is held or whose manifest has run out,
   whatever it was doing (waiting for a retry, in flight, ready): fetching always terminates at the manifest's expiry *)
Theorem c24_pass_drops_due_fetches : forall c expires ops t0 now,
  let s := fst (run_ops c expires (init, t0) ops) in
  forall f, In f (fetches (fst (process c s now))) ->
    memz (f_chunk f) (held s) = false /\ (f_expires f = 0 \/ now < f_expires f).
Proof.
  intros c expires ops t0 now. cbv zeta. intros f Hin.
  pose proof (process_drops c _ now (reachable_inv c expires ops (init, t0) (Inv_init c)) f Hin) as K.
  unfold dead, deadk in K. split; [destruct (memz _ _); [discriminate | reflexivity] | lia].
Qed.
Print Assumptions c24_pass_drops_due_fetches.

(* non-vacuity, and the two historical failures: (1) a fetch in flight at peer 1 is announced again by peer 1 and then by peer 2,
   the chunk arrives: no counter is left behind; (2) attempt limit 2, requests sent but never answered: the fetch ends *)
Example c24_examples :
  let c := mkCfg 3 60 15 5 3 in
  let s1 := fst (run_ops c (fun _ => 0) (init, 1000) [Announce 1 1; Advance 1000; Announce 1 1; Advance 1000; Announce 1 2; Arrive 1; Tick]) in
  let c2 := mkCfg 1 4 2 2 3 in
  let s2 := fst (run_ops c2 (fun _ => 0) (init, 1000) [Announce 1 1; Advance 2000; Tick; Advance 2000; Tick]) in
  let s3 := fst (run_ops c2 (fun _ => 0) (init, 1000) [Announce 1 1; Advance 2000; Tick]) in
  (cget 1 (counters s1), cget 2 (counters s1), zlen (fetches s1), zlen (fetches s2), cget 1 (counters s2),
   map f_attempts (fetches s3), cget 1 (counters s3)) = (0, 0, 0, 0, 0, [2], 1).
Proof. vm_compute. reflexivity. Qed.
