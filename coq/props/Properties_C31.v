(* C31 -- fetch output stays inside the chosen directory.
   Only statements here; proofs are in proofs/FilenameProofs.v. *)
Require Import ZArith List Lia.
Import ListNotations.
Local Open Scope Z_scope.
From EphVerif Require Import lib.Bytes model.FilenameModel proofs.FilenameProofs gen.Constants_filename.

(* Whatever filename the manifest suggests (any byte string), the name `eph fetch` derives is either empty -- the CLI
   then uses the chunk id in hex or chunk_<microseconds> -- or a non-empty name of at most 255 bytes without control
   bytes, separators or reserved characters that is neither "." nor "..". *)
Theorem c31_fetch_name : forall raw, fetch_sanitize raw = [] \/ safe_name fetch_max_name (fetch_sanitize raw).
Proof. exact fetch_sanitize_safe. Qed.
Print Assumptions c31_fetch_name.

(* the node records only such names in the manifests it issues *)
Theorem c31_store_name : forall raw, store_sanitize raw = [] \/ safe_name store_max_name (store_sanitize raw).
Proof. exact store_sanitize_safe. Qed.
Print Assumptions c31_store_name.

(* the control-plane hint is a single component, never "." or ".." *)
Theorem c31_hint_name : forall raw, hint_sanitize raw = [] \/
  (noslash (hint_sanitize raw) /\ hint_sanitize raw <> dot /\ hint_sanitize raw <> dotdot /\ zlen (hint_sanitize raw) <= hint_max_name).
Proof. exact hint_sanitize_component. Qed.

(* a safe name joined to the directory is a direct child of it: its last component is the name itself *)
Theorem c31_direct_child : forall max dir name, safe_name max name -> filename (join dir name) = name.
Proof. intros max dir name (_ & Hok & _). apply join_direct_child. apply ok_char_noslash. exact Hok. Qed.
Print Assumptions c31_direct_child.

(* what "safe" excludes, spelled out; and the limits are the ones in the source now *)
Theorem c31_ok_char : forall c, ok_char c -> 32 <= c /\ c <> 127 /\ ~ In c [47; 92; 58; 42; 63; 34; 60; 62; 124].
Proof. exact ok_char_spec. Qed.
Theorem c31_limits : fetch_max_name = 255 /\ store_max_name = 255 /\ hint_max_name = 255.
Proof. repeat split; reflexivity. Qed.

(* non-vacuity *)
Example c31_examples :
  fetch_sanitize [46; 46; 47; 46; 46; 47; 101; 116; 99; 47; 112; 1; 119; 92; 100] = [112; 119; 95; 100] /\
  fetch_sanitize [97; 47; 46; 46] = [] /\ fetch_sanitize [46; 1; 46] = [] /\ store_sanitize [46; 127] = [] /\
  safe_name 255 (fetch_sanitize [120; 58; 121]) /\
  zlen (fetch_sanitize (repeat 97 300)) = 255.
Proof.
  repeat split; try (vm_compute; reflexivity); try (vm_compute; discriminate).
  apply firstn_ok. apply scrub_ok.
Qed.
