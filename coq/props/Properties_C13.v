(* C13 -- signed messages are accepted only with the exact MAC over the exact bytes.
   Only statements here; proofs are in proofs/MessageProofs.v. *)
Require Import ZArith List.
Import ListNotations.
Local Open Scope Z_scope.
From EphVerif Require Import lib.Bytes model.Sha256Model model.MessageModel proofs.MessageProofs.

(* body = all but the last 32 bytes, tag = the last 32 bytes *)
Theorem c13_iff : forall buf key m,
  decode_signed buf key = Some m <->
  (32 <= length buf)%nat /\ tag buf = hmac key (body buf) /\ decode (body buf) = Some m.
Proof. exact decode_signed_iff. Qed.
Print Assumptions c13_iff.

Theorem c13_verify_exact : forall key data mac, hmac_verify key data mac = true <-> mac = hmac key data.
Proof. exact hmac_verify_iff. Qed.
Print Assumptions c13_verify_exact.

Theorem c13_encode_signed_accepts : forall m key, wf m ->
  decode_signed (encode_signed m key) key = Some (carry m).
Proof. exact decode_signed_encode_signed. Qed.
Print Assumptions c13_encode_signed_accepts.

(* any change confined to the tag is rejected, unconditionally *)
Theorem c13_tag_tamper : forall b t key,
  length t = 32%nat -> t <> hmac key b -> decode_signed (b ++ t) key = None.
Proof. exact tag_tamper_rejected. Qed.

(* any other buffer or key whose tag is not the HMAC of its body is rejected; "a modified body is
   rejected" beyond this is HMAC unforgeability -- a cryptographic assumption, stated as the hypothesis *)
Theorem c13_body_tamper : forall buf key,
  (32 <= length buf)%nat -> tag buf <> hmac key (body buf) -> decode_signed buf key = None.
Proof. exact body_or_key_tamper_rejected. Qed.

Theorem c13_truncated : forall buf key, (length buf < 32)%nat -> decode_signed buf key = None.
Proof. exact short_rejected. Qed.
Print Assumptions c13_body_tamper.

(* non-vacuity: a concrete signed ACK is accepted, and flipping one body bit makes it rejected *)
Example c13_example :
  let key := repeat 17 32 in
  let m := {| m_version := 4; m_type := 4; m_payload := PAck (repeat 1 32) (repeat 2 32) true |} in
  let s := encode_signed m key in
  decode_signed s key = Some m /\
  decode_signed (5 :: tl s) key = None /\ decode_signed s (repeat 18 32) = None.
Proof. vm_compute. repeat split. Qed.
