(* C17 -- manifests round-trip, and unrepresentable manifests are refused.
   Only statements here; proofs are in proofs/ManifestProofs.v. *)
Require Import ZArith List Lia.
Import ListNotations.
Local Open Scope Z_scope.
From EphVerif Require Import lib.Bytes lib.Outcome model.ManifestModel proofs.ManifestProofs gen.Constants_manifest.

(* For every manifest the C++ types admit ([typed]: fixed-size ids, uint8 fields, int64 clock, byte strings,
   std::map key order) that the encoder accepts, decoding the produced eph:// URI yields the same manifest
   up to whole-second expiry and an empty discovery scheme being reported as its transport ([norm]). *)
Theorem c17_roundtrip : forall m uri, typed m -> encode_manifest m = Ok uri -> decode_manifest uri = Ok (norm m).
Proof. exact accepted_roundtrip. Qed.
Print Assumptions c17_roundtrip.

(* Every field the format cannot represent -- more than 255 shards / metadata entries / hints / fallbacks,
   a key, scheme or transport over 255 bytes, a value, endpoint, URI or advisory over 65535 bytes --
   is refused with std::length_error; nothing is truncated. *)
Theorem c17_refused : forall m, unrepresentable m -> encode_manifest m = Throw LengthError.
Proof. exact unrepresentable_refused. Qed.
Print Assumptions c17_refused.

(* the encoder has no third outcome *)
Theorem c17_encode_total : forall m, encode_manifest m = Throw LengthError \/ exists uri, encode_manifest m = Ok uri.
Proof. exact refused_only_unrepresentable. Qed.

(* everything within the limits is accepted (so the round trip is not vacuous) *)
Theorem c17_accepted : forall m, wf m -> exists uri, encode_manifest m = Ok uri /\ decode_manifest uri = Ok (norm m).
Proof. exact encode_decode. Qed.
Print Assumptions c17_accepted.

(* the constants the proofs are about are the ones in the source now *)
Theorem c17_constants : manifest_version = 4 /\ manifest_scheme = uri_scheme /\ attestation_digest_size = 32 /\
  zlen base64_alphabet = 64.
Proof. repeat split; reflexivity. Qed.

(* non-vacuity: a concrete manifest with sub-second negative expiry, an empty scheme, metadata, a digest *)
Definition c17_example : manifest :=
  {| mf_chunk_id := repeat 7 32; mf_hash := repeat 9 32; mf_nonce := repeat 1 12;
     mf_threshold := 2; mf_total := 3; mf_expires_ns := -1500000001;
     mf_shards := [ {| sh_index := 1; sh_value := repeat 5 32 |}; {| sh_index := 255; sh_value := repeat 255 32 |} ];
     mf_meta := [ ([97], [1; 2; 3]); ([97; 98], []) ];
     mf_hints := [ {| h_scheme := []; h_transport := [116; 99; 112]; h_endpoint := [49; 46; 50]; h_priority := 7 |} ];
     mf_token_bits := 12; mf_advisory := [104; 105]; mf_attest := Some (repeat 3 32);
     mf_fallbacks := [ {| f_uri := [104; 116; 116; 112]; f_priority := 0 |} ] |}.

Example c17_example_ok :
  typed c17_example /\
  (exists uri, encode_manifest c17_example = Ok uri) /\
  norm c17_example <> c17_example.
Proof.
  split; [|split].
  - unfold typed, c17_example; cbn -[Z.lt Z.le].
    repeat match goal with
           | |- _ /\ _ => split
           | |- bytes_ok _ => apply bytes_okb_spec; reflexivity
           | |- Forall _ _ => constructor
           | |- _ => first [exact I | reflexivity | (cbn; lia)]
           end.
  - eexists. vm_compute. reflexivity.
  - vm_compute. discriminate.
Qed.

Example c17_example_unrepresentable :
  unrepresentable {| mf_chunk_id := []; mf_hash := []; mf_nonce := []; mf_threshold := 0; mf_total := 0; mf_expires_ns := 0;
                     mf_shards := repeat {| sh_index := 0; sh_value := [] |} 256; mf_meta := []; mf_hints := [];
                     mf_token_bits := 0; mf_advisory := []; mf_attest := None; mf_fallbacks := [] |}.
Proof. left. vm_compute. reflexivity. Qed.
