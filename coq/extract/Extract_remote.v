Require Extraction.
Require Import ExtrOcamlBasic.
From EphVerif Require Import model.RemoteModel.
Extraction "../build/extracted/m_remote.ml" RemoteModel.run.
