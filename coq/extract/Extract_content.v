Require Extraction.
Require Import ExtrOcamlBasic.
From EphVerif Require Import model.ContentModel.
Extraction "../build/extracted/m_content.ml" ContentModel.run.
