Require Extraction.
Require Import ExtrOcamlBasic.
From EphVerif Require Import model.JsonModel.
Extraction "../build/extracted/m_json.ml" JsonModel.run.
