Require Extraction.
Require Import ExtrOcamlBasic.
From EphVerif Require Import model.FetchModel.
Extraction "../build/extracted/m_fetch.ml" FetchModel.run.
