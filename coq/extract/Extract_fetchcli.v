Require Extraction.
Require Import ExtrOcamlBasic.
From EphVerif Require Import model.FetchCliModel.
Extraction "../build/extracted/m_fetchcli.ml" FetchCliModel.run.
