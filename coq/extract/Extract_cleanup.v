Require Extraction.
Require Import ExtrOcamlBasic.
From EphVerif Require Import model.CleanupModel.
Extraction "../build/extracted/m_cleanup.ml" CleanupModel.run.
