Require Extraction.
Require Import ExtrOcamlBasic.
From EphVerif Require Import model.TransportModel.
Extraction "../build/extracted/m_transport.ml" TransportModel.run.
