Require Extraction.
Require Import ExtrOcamlBasic.
From EphVerif Require Import model.StunModel.
Extraction "../build/extracted/m_stun.ml" StunModel.run.
