Require Extraction.
Require Import ExtrOcamlBasic.
From EphVerif Require Import model.UploadModel.
Extraction "../build/extracted/m_upload.ml" UploadModel.run.
