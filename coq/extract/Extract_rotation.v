Require Extraction.
Require Import ExtrOcamlBasic.
From EphVerif Require Import model.RotationModel.
Extraction "../build/extracted/m_rotation.ml" RotationModel.run.
