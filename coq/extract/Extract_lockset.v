Require Extraction.
Require Import ExtrOcamlBasic.
From EphVerif Require Import model.LocksetModel.
Extraction "../build/extracted/m_lockset.ml" LocksetModel.run.
