Require Extraction.
Require Import ExtrOcamlBasic.
From EphVerif Require Import model.LoggerModel.
Extraction "../build/extracted/m_logger.ml" LoggerModel.run.
