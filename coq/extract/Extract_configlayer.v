Require Extraction.
Require Import ExtrOcamlBasic.
From EphVerif Require Import model.ConfigLayerModel.
Extraction "../build/extracted/m_configlayer.ml" ConfigLayerModel.run.
