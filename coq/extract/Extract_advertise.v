Require Extraction.
Require Import ExtrOcamlBasic.
From EphVerif Require Import model.AdvertiseModel.
Extraction "../build/extracted/m_advertise.ml" AdvertiseModel.run.
