Require Extraction.
Require Import ExtrOcamlBasic.
From EphVerif Require Import model.ManifestModel.
Extraction "../build/extracted/m_manifest.ml" ManifestModel.run.
