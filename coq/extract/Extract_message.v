Require Extraction.
Require Import ExtrOcamlBasic.
From EphVerif Require Import model.MessageModel.
Extraction "../build/extracted/m_message.ml" MessageModel.run.
