Require Extraction.
Require Import ExtrOcamlBasic.
From EphVerif Require Import model.ManifestTtlModel.
Extraction "../build/extracted/m_manifestttl.ml" ManifestTtlModel.run.
