Require Extraction.
Require Import ExtrOcamlBasic.
From EphVerif Require Import model.ProviderModel.
Extraction "../build/extracted/m_provider.ml" ProviderModel.run.
