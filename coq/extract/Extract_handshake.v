Require Extraction.
Require Import ExtrOcamlBasic.
From EphVerif Require Import model.HandshakeModel.
Extraction "../build/extracted/m_handshake.ml" HandshakeModel.run.
