Require Extraction.
Require Import ExtrOcamlBasic.
From EphVerif Require Import model.ConfigModel.
Extraction "../build/extracted/m_config.ml" ConfigModel.run.
