Require Extraction.
Require Import ExtrOcamlBasic.
From EphVerif Require Import model.SwarmModel.
Extraction "../build/extracted/m_swarm.ml" SwarmModel.run.
