Require Extraction.
Require Import ExtrOcamlBasic.
From EphVerif Require Import model.ChunkStoreModel.
Extraction "../build/extracted/m_chunkstore.ml" ChunkStoreModel.run.
