Require Extraction.
Require Import ExtrOcamlBasic.
From EphVerif Require Import model.ChaCha20Model.
Extraction "../build/extracted/m_chacha.ml" ChaCha20Model.run.
