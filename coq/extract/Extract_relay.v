Require Extraction.
Require Import ExtrOcamlBasic.
From EphVerif Require Import model.RelayModel.
Extraction "../build/extracted/m_relay.ml" RelayModel.run.
