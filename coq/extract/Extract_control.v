Require Extraction.
Require Import ExtrOcamlBasic.
From EphVerif Require Import model.ControlModel.
Extraction "../build/extracted/m_control.ml" ControlModel.run.
