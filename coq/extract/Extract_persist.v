Require Extraction.
Require Import ExtrOcamlBasic.
From EphVerif Require Import model.PersistModel.
Extraction "../build/extracted/m_persist.ml" PersistModel.run.
