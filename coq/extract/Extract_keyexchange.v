Require Extraction.
Require Import ExtrOcamlBasic.
From EphVerif Require Import model.KeyExchangeModel.
Extraction "../build/extracted/m_keyexchange.ml" KeyExchangeModel.run.
