Require Extraction.
Require Import ExtrOcamlBasic.
From EphVerif Require Import model.PowRun.
Extraction "../build/extracted/m_pow.ml" PowRun.run.
