Require Extraction.
Require Import ExtrOcamlBasic.
From EphVerif Require Import model.FilenameModel.
Extraction "../build/extracted/m_filename.ml" FilenameModel.run.
