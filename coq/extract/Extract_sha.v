Require Extraction.
Require Import ExtrOcamlBasic.
From EphVerif Require Import model.Sha256Run.
Extraction "../build/extracted/m_sha.ml" Sha256Run.run.
