Require Extraction.
Require Import ExtrOcamlBasic.
From EphVerif Require Import model.AnnounceModel.
Extraction "../build/extracted/m_announce.ml" AnnounceModel.run.
