Require Extraction.
Require Import ExtrOcamlBasic.
From EphVerif Require Import model.ShamirModel.
Extraction "../build/extracted/m_shamir.ml" ShamirModel.run.
