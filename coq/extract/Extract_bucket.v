Require Extraction.
Require Import ExtrOcamlBasic.
From EphVerif Require Import model.BucketModel.
Extraction "../build/extracted/m_bucket.ml" BucketModel.run.
