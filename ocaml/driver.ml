(* Generic driver for an extracted model family.  MODEL is replaced by the extracted module name.
   Protocol: one case per input line = space separated decimal integers (|x| < 2^62);
   one output line per case = the integers returned by MODEL.run.  Nothing else is printed. *)
open MODEL

let rec pos_of_int n =
  if n = 1 then XH
  else if n land 1 = 0 then XO (pos_of_int (n lsr 1))
  else XI (pos_of_int (n lsr 1))

let z_of_int n =
  if n = 0 then Z0 else if n > 0 then Zpos (pos_of_int n) else Zneg (pos_of_int (- n))

let rec int_of_pos = function
  | XH -> 1
  | XO p -> 2 * int_of_pos p
  | XI p -> 2 * int_of_pos p + 1

let int_of_z = function Z0 -> 0 | Zpos p -> int_of_pos p | Zneg p -> - (int_of_pos p)

let parse_line s =
  let n = String.length s in
  let rec go i acc cur neg have =
    if i = n then List.rev (if have then (z_of_int (if neg then -cur else cur)) :: acc else acc)
    else
      let c = s.[i] in
      if c = ' ' || c = '\t' || c = '\r' then
        go (i + 1) (if have then (z_of_int (if neg then -cur else cur)) :: acc else acc) 0 false false
      else if c = '-' then go (i + 1) acc 0 true false
      else go (i + 1) acc (cur * 10 + (Char.code c - 48)) neg true
  in
  go 0 [] 0 false false

let () =
  let buf = Buffer.create 65536 in
  (try
     while true do
       let line = input_line stdin in
       let out = MODEL.run (parse_line line) in
       Buffer.clear buf;
       List.iteri (fun i z -> if i > 0 then Buffer.add_char buf ' '; Buffer.add_string buf (string_of_int (int_of_z z))) out;
       Buffer.add_char buf '\n';
       print_string (Buffer.contents buf)
     done
   with End_of_file -> ());
  flush stdout
