// "pow" family (C19): every PoW validator, solver and leading-zero counter of the current tree.
//  - Node.cpp's anonymous-namespace functions: the whole file is #included below.
//  - main.cpp's and StoreProof.cpp's anonymous-namespace functions: copied verbatim from the current source into
//    build/gen/c19_pow.hpp by tools/props/C19.py on every run (namespaces gen_cli / gen_store).
#include "common.hpp"
#include "core/Node.cpp"
#include "ephemeralnet/security/StoreProof.hpp"
#include "ephemeralnet/bootstrap/TokenChallenge.hpp"
#include "c19_pow.hpp"
using hv::In; using hv::Out; using hv::i64;
namespace en = ephemeralnet;

static void put_opt(Out& out, const std::optional<std::uint64_t>& v) {
    if (v) { out.put(1); out.u64(*v); } else out.put(0);
}

static en::protocol::AnnouncePayload read_announce(In& in) {
    en::protocol::AnnouncePayload p{};
    p.chunk_id = in.id32();
    p.peer_id = in.id32();
    p.endpoint = in.str();
    p.manifest_uri = in.str();
    p.assigned_shards = in.bytes();
    p.ttl = std::chrono::seconds(static_cast<std::int64_t>(in.u64()));
    return p;
}

int main() {
    return hv::main_loop([](In& in, Out& out) {
        const i64 mode = in.next();
        if (mode == 1) {
            const auto dg = in.id32(); const auto d = static_cast<std::uint8_t>(in.next());
            out.put(static_cast<i64>(en::count_leading_zero_bits(dg)));
            out.put(static_cast<i64>(gen_store::count_leading_zero_bits(std::span<const std::uint8_t>(dg.data(), dg.size()))));
            out.put(static_cast<i64>(gen_cli::count_leading_zero_bits(std::span<const std::uint8_t>(dg.data(), dg.size()))));
            out.put(en::bootstrap::digest_meets_difficulty(std::span<const std::uint8_t>(dg.data(), dg.size()), d) ? 1 : 0);
        } else if (mode == 2) {
            const auto dg = in.bytes(); const auto d = static_cast<std::uint8_t>(in.next());
            hv::TightBuf tb(dg);
            out.put(static_cast<i64>(gen_store::count_leading_zero_bits(tb.span())));
            out.put(static_cast<i64>(gen_cli::count_leading_zero_bits(tb.span())));
            out.put(en::bootstrap::digest_meets_difficulty(tb.span(), d) ? 1 : 0);
        } else if (mode == 3) {
            const auto i = in.id32(); const auto r = in.id32();
            const auto pub = static_cast<std::uint32_t>(in.next());
            const auto nonce = in.u64(); const auto d = static_cast<std::uint8_t>(in.next());
            out.put(en::handshake_pow_valid(i, r, pub, nonce, d) ? 1 : 0);
            out.put(gen_cli::transport_pow_valid(i, r, pub, nonce, d) ? 1 : 0);
            out.u64(en::derive_handshake_seed(i, r, pub));
            out.raw(en::handshake_pow_digest(i, r, pub, nonce));
        } else if (mode == 4) {
            auto p = read_announce(in);
            p.work_nonce = in.u64();
            const auto d = static_cast<std::uint8_t>(in.next());
            out.put(en::announce_pow_valid(p, d) ? 1 : 0);
            out.u64(en::derive_pow_seed(p));
            out.raw(en::announce_pow_digest(p));
        } else if (mode == 5) {
            en::security::StoreWorkInput w{};
            w.chunk_id = in.id32(); w.payload_size = in.u64();
            const std::string fn = in.str(); w.filename_hint = fn;
            const auto nonce = in.u64(); const auto d = static_cast<std::uint8_t>(in.next());
            out.put(en::security::store_pow_valid(w, nonce, d) ? 1 : 0);
        } else if (mode == 6) {
            en::protocol::Manifest m{}; en::protocol::DiscoveryHint h{};
            m.chunk_id = in.id32(); m.chunk_hash = in.id32(); h.endpoint = in.str();
            const auto d = static_cast<std::uint8_t>(in.next()); const auto mx = static_cast<std::uint64_t>(in.next());
            put_opt(out, en::bootstrap::solve_token_challenge(m, h, d, mx));
        } else if (mode == 7) {
            const auto i = in.id32(); const auto r = in.id32();
            const auto pub = static_cast<std::uint32_t>(in.next());
            const auto d = static_cast<std::uint8_t>(in.next());
            std::uint64_t nonce = 0;
            if (en::compute_handshake_pow(i, r, pub, d, nonce)) { out.put(1); out.u64(nonce); } else out.put(0);
            put_opt(out, gen_cli::compute_transport_pow(i, r, pub, d));
        } else if (mode == 8) {
            auto p = read_announce(in);
            const auto d = static_cast<std::uint8_t>(in.next());
            if (en::compute_announce_pow(p, d)) { out.put(1); out.u64(p.work_nonce); } else out.put(0);
        } else if (mode == 9) {
            en::security::StoreWorkInput w{};
            w.chunk_id = in.id32(); w.payload_size = in.u64();
            const std::string fn = in.str(); w.filename_hint = fn;
            const auto d = static_cast<std::uint8_t>(in.next()); const auto mx = static_cast<std::uint64_t>(in.next());
            put_opt(out, en::security::compute_store_pow(w, d, mx));
        } else out.put(-1);
    });
}
