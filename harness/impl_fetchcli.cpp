// "fetchcli" family (C30): src/main.cpp is #included (its main renamed) and the real `eph fetch` command runs in this process:
//   eph --yes --identity-seed 77 --control-host 127.0.0.1 --control-port <local> fetch <uri> --out <file> [mode flag]
// against endpoints the harness scripts.  The manifest is made by a real publisher Node (store_chunk of the payload P), then
// its discovery hints / fallback URIs are replaced by the case's and it is encoded again.
//   transport hints -> real Nodes with the publisher's identity listening on 127.0.0.1 (start_transport(0)): one holds the
//     genuine ciphertext; one holds the manifest but a record whose ciphertext was XOR-ed / truncated / extended so that it
//     decrypts to the bytes the case names; one holds nothing (it answers with a negative acknowledgement); or a closed port.
//   control hints, control:// fallbacks and the local daemon -> a listener thread that reads one control request and answers
//     as scripted: STATUS:OK with a payload (any bytes), STATUS:OK without payload (OUTPUT field), STATUS:ERROR, or a closed port.
// Observed: the exit code, whether the output file exists and its bytes, which endpoint served (parsed from the CLI's own
// "... succeeded via host:port" line), and how many control requests each endpoint received.
#include "common.hpp"
#include <arpa/inet.h>
#include <atomic>
#include <fstream>
#include <netinet/in.h>
#include <sys/socket.h>
#include <thread>
namespace ephemeralnet::test { class NodeTestAccess; }
#define main eph_cli_main
#include "main.cpp"
#undef main
#include "ephemeralnet/core/Node.hpp"
namespace ephemeralnet::test {
class NodeTestAccess {
public:
    static void put_record(Node& n, const ChunkId& id, ChunkData data, std::chrono::seconds ttl) { n.chunk_store_.put(id, std::move(data), ttl); }
};
}
using hv::In; using hv::Out; using hv::i64;
namespace en = ephemeralnet;
using TA = ephemeralnet::test::NodeTestAccess;

struct Script { i64 code = 0; std::vector<std::uint8_t> bytes; };     // 0 closed port, 1 refuse, 2 payload, 3 ok without payload

struct ControlEndpoint {
    int fd = -1; std::uint16_t port = 0; Script script; std::thread th; std::atomic<int> requests{0}; std::atomic<bool> stop{false};
    void start() {
        fd = ::socket(AF_INET, SOCK_STREAM, 0);
        int one = 1; ::setsockopt(fd, SOL_SOCKET, SO_REUSEADDR, &one, sizeof one);
        sockaddr_in a{}; a.sin_family = AF_INET; a.sin_addr.s_addr = htonl(INADDR_LOOPBACK); a.sin_port = 0;
        ::bind(fd, reinterpret_cast<sockaddr*>(&a), sizeof a);
        socklen_t len = sizeof a; ::getsockname(fd, reinterpret_cast<sockaddr*>(&a), &len); port = ntohs(a.sin_port);
        // a closed port stays bound (and refuses every connection: nobody listens) until the case is over, so that the kernel
        // cannot hand the same number to another endpoint of this case
        if (script.code == 0) return;
        ::listen(fd, 8);
        th = std::thread([this] {
            for (;;) {
                const int c = ::accept(fd, nullptr, nullptr);
                if (c < 0 || stop.load()) { if (c >= 0) ::close(c); return; }
                std::string req; char buf[4096];
                while (req.find("\n\n") == std::string::npos) { const ssize_t n = ::recv(c, buf, sizeof buf, 0); if (n <= 0) break; req.append(buf, static_cast<std::size_t>(n)); }
                ++requests;
                std::string head;
                if (script.code == 1) head = "STATUS:ERROR\nCODE:ERR_FETCH\nMESSAGE:refused by the scripted endpoint\n\n";
                else if (script.code == 3) head = "STATUS:OK\nCODE:OK_FETCH\nOUTPUT:/nonexistent/on-the-daemon-host\nSIZE:" + std::to_string(script.bytes.size()) + "\n\n";
                else head = "STATUS:OK\nCODE:OK_FETCH\nPAYLOAD-LENGTH:" + std::to_string(script.bytes.size()) + "\nSIZE:" + std::to_string(script.bytes.size()) + "\n\n";
                ::send(c, head.data(), head.size(), MSG_NOSIGNAL);
                if (script.code == 2 && !script.bytes.empty()) ::send(c, script.bytes.data(), script.bytes.size(), MSG_NOSIGNAL);
                ::shutdown(c, SHUT_WR);
                while (::recv(c, buf, sizeof buf, 0) > 0) { }
                ::close(c);
            }
        });
    }
    void finish() {
        if (fd < 0) return;
        if (script.code == 0) { ::close(fd); fd = -1; return; }
        stop = true;
        // wake the accept
        const int k = ::socket(AF_INET, SOCK_STREAM, 0);
        sockaddr_in a{}; a.sin_family = AF_INET; a.sin_addr.s_addr = htonl(INADDR_LOOPBACK); a.sin_port = htons(port);
        ::connect(k, reinterpret_cast<sockaddr*>(&a), sizeof a); ::close(k);
        if (th.joinable()) th.join();
        ::close(fd); fd = -1;
    }
};

static std::vector<int> g_reserved;       // bound, not listening: closed ports of the running case
static std::uint16_t free_port() {
    const int fd = ::socket(AF_INET, SOCK_STREAM, 0);
    sockaddr_in a{}; a.sin_family = AF_INET; a.sin_addr.s_addr = htonl(INADDR_LOOPBACK); a.sin_port = 0;
    ::bind(fd, reinterpret_cast<sockaddr*>(&a), sizeof a);
    socklen_t len = sizeof a; ::getsockname(fd, reinterpret_cast<sockaddr*>(&a), &len);
    g_reserved.push_back(fd);
    return ntohs(a.sin_port);
}

int main() {
    static int counter = 0;
    return hv::main_loop([](In& in, Out& out) {
        const i64 mode = in.next();
        const i64 exflags = in.next();
        const bool expired = (exflags & 1) != 0;
        const bool zero_hash = (exflags & 2) != 0;      // the manifest handed to the CLI carries an all-zero content hash
        const auto P = in.bytes();
        en::Config pc{};
        pc.identity_seed = 30u; pc.relay_enabled = false; pc.storage_persistent_enabled = false;
        pc.handshake_pow_difficulty = 0; pc.announce_pow_difficulty = 0; pc.advertise_auto_mode = en::Config::AdvertiseAutoMode::Off;
        en::PeerId pubid{}; pubid[0] = 0x30; pubid[31] = 0x01;
        std::vector<en::Node*> nodes;
        auto make_node = [&]() { auto* n = new en::Node(pubid, pc); nodes.push_back(n); return n; };
        en::Node* publisher = make_node();
        const auto chunk = en::security::derive_chunk_id(std::span<const std::uint8_t>(P.data(), P.size()));
        auto manifest = publisher->store_chunk(chunk, en::ChunkData(P.begin(), P.end()), std::chrono::seconds(3600));
        const auto genuine = publisher->export_chunk_record(chunk);
        const auto genuine_uri = protocol::encode_manifest(manifest);
        manifest.discovery_hints.clear(); manifest.fallback_hints.clear();
        manifest.security.token_challenge_bits = 0;

        const i64 nh = in.next();
        std::vector<std::unique_ptr<ControlEndpoint>> controls;       // index -> endpoint (nullptr for transport hints)
        std::vector<std::uint16_t> ports;
        for (i64 h = 0; h < nh; ++h) {
            const i64 kind = in.next(), prio = in.next(), code = in.next();
            std::vector<std::uint8_t> bytes; if (code == 2) bytes = in.bytes();
            if (kind == 0) {
                std::uint16_t port = 0;
                if (code == 0) port = free_port();
                else {
                    en::Node* n = make_node();          // one listener (and port) per hint
                    {
                        n->ingest_manifest(genuine_uri);
                        if (code == 2 && genuine) {
                            // a record that decrypts (stream cipher) to `bytes`: XOR the difference into the genuine ciphertext
                            en::ChunkData ct(bytes.size());
                            for (std::size_t i = 0; i < bytes.size(); ++i) {
                                const std::uint8_t c = i < genuine->data.size() ? genuine->data[i] : 0;
                                const std::uint8_t p = i < P.size() ? P[i] : 0;
                                ct[i] = static_cast<std::uint8_t>(c ^ p ^ bytes[i]);
                            }
                            TA::put_record(*n, chunk, std::move(ct), std::chrono::seconds(3600));
                        }
                    }
                    n->start_transport(0);
                    port = n->transport_port();
                }
                protocol::DiscoveryHint hint{}; hint.scheme = "transport"; hint.transport = "tcp";
                hint.endpoint = "127.0.0.1:" + std::to_string(port); hint.priority = static_cast<std::uint8_t>(prio);
                manifest.discovery_hints.push_back(hint);
                controls.push_back(nullptr); ports.push_back(port);
            } else {
                auto ep = std::make_unique<ControlEndpoint>(); ep->script.code = code; ep->script.bytes = bytes; ep->start();
                if (kind == 1) {
                    protocol::DiscoveryHint hint{}; hint.scheme = "control"; hint.transport = "control";
                    hint.endpoint = "127.0.0.1:" + std::to_string(ep->port); hint.priority = static_cast<std::uint8_t>(prio);
                    manifest.discovery_hints.push_back(hint);
                } else {
                    protocol::FallbackHint fb{}; fb.uri = "control://127.0.0.1:" + std::to_string(ep->port); fb.priority = static_cast<std::uint8_t>(prio);
                    manifest.fallback_hints.push_back(fb);
                }
                ports.push_back(ep->port); controls.push_back(std::move(ep));
            }
        }
        ControlEndpoint local; local.script.code = in.next(); if (local.script.code == 2) local.script.bytes = in.bytes();
        local.start();

        if (zero_hash) manifest.chunk_hash.fill(0);
        if (expired) manifest.expires_at = std::chrono::system_clock::now() - std::chrono::seconds(100);     // on the CLI's clock
        const auto uri = protocol::encode_manifest(manifest);
        const auto outfile = std::filesystem::temp_directory_path() / ("verif-c30-" + std::to_string(::getpid()) + "-" + std::to_string(counter++) + ".bin");
        std::filesystem::remove(outfile);
        std::vector<std::string> args = {"eph", "--yes", "--identity-seed", "77", "--control-host", "127.0.0.1", "--control-port", std::to_string(local.port),
                                         "fetch", uri, "--out", outfile.string()};
        if (mode == 1) args.push_back("--direct-only");
        if (mode == 2) args.push_back("--transport-only");
        if (mode == 3) args.push_back("--control-fallback");
        std::vector<char*> argv; for (auto& a : args) argv.push_back(a.data());
        std::ostringstream cap_out, cap_err;
        auto* old_out = std::cout.rdbuf(cap_out.rdbuf()); auto* old_err = std::cerr.rdbuf(cap_err.rdbuf());
        int rc = -77;
        try { rc = eph_cli_main(static_cast<int>(argv.size()), argv.data()); } catch (...) { rc = -78; }
        std::cout.rdbuf(old_out); std::cerr.rdbuf(old_err);

        out.put(rc);
        if (std::filesystem::exists(outfile)) {
            std::ifstream f(outfile, std::ios::binary); std::vector<std::uint8_t> got((std::istreambuf_iterator<char>(f)), std::istreambuf_iterator<char>());
            out.put(1); out.bytes(got);
        } else out.put(0);
        // which endpoint served: hint index, 100 = the local daemon, -1 = none
        i64 served = -1;
        const auto text = cap_out.str();
        const auto pos = text.find("succeeded via 127.0.0.1:");
        if (pos != std::string::npos) {
            const auto port = static_cast<std::uint16_t>(std::strtoul(text.c_str() + pos + 24, nullptr, 10));
            for (std::size_t h = 0; h < ports.size(); ++h) if (ports[h] == port) served = static_cast<i64>(h);
        } else if (rc == 0 && text.find("File retrieved to") != std::string::npos) served = 100;
        out.put(served);
        for (auto& ep : controls) out.put(ep ? ep->requests.load() : -1);
        out.put(local.requests.load());

        for (auto& ep : controls) if (ep) ep->finish();
        local.finish();
        for (int fd : g_reserved) ::close(fd);
        g_reserved.clear();
        std::filesystem::remove(outfile);
        for (auto* n : nodes) { n->stop_transport(); delete n; }
    }, 120);
}
