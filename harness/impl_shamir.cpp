// "shamir" family (C10): the real Shamir::split / combine and the GF(256) helpers of Shamir.cpp (anonymous namespace,
// reached by #include).  std::random_device is replaced at link time so that split's coefficients are the scripted bytes
// the model receives as input.
#include "common.hpp"
#include <random>
namespace hvrd { std::vector<unsigned> script; std::size_t pos = 0; }
namespace std {
void random_device::_M_init(const std::string&) {}
void random_device::_M_fini() {}
random_device::result_type random_device::_M_getval() {
    return hvrd::pos < hvrd::script.size() ? hvrd::script[hvrd::pos++] : 0u;
}
}
#include "crypto/Shamir.cpp"
using hv::In; using hv::Out; using hv::i64;
namespace cr = ephemeralnet::crypto;

int main() {
    return hv::main_loop([](In& in, Out& out) {
        const i64 mode = in.next();
        static const auto exp_t = cr::build_exp_table();
        static const auto log_t = cr::build_log_table(exp_t);
        if (mode == 1) {
            const auto a = static_cast<std::uint8_t>(in.next()), b = static_cast<std::uint8_t>(in.next());
            out.put(cr::gf_mul(a, b, exp_t, log_t)); out.put(cr::gf_add(a, b));
            hv::guarded(out, [&] { const auto q = cr::gf_div(a, b, exp_t, log_t); out.put(0); out.put(q); });
        } else if (mode == 2) {
            const auto secret = in.id32();
            const auto t = static_cast<std::uint8_t>(in.next()), n = static_cast<std::uint8_t>(in.next());
            const auto rnd = in.bytes();
            hvrd::script.assign(rnd.begin(), rnd.end()); hvrd::pos = 0;
            // random_device yields 32-bit values; split keeps the low byte: script the high bits too
            for (std::size_t i = 0; i < hvrd::script.size(); ++i) hvrd::script[i] |= static_cast<unsigned>((i * 2654435761u) & 0xFFFFFF00u);
            hv::guarded(out, [&] {
                const auto shares = cr::Shamir::split(secret, t, n);
                out.put(static_cast<i64>(shares.size()));
                for (const auto& s : shares) { out.put(s.index); out.raw(s.value); }
            });
        } else if (mode == 3) {
            const auto t = static_cast<std::uint8_t>(in.next()); const i64 n = in.next();
            std::vector<cr::ShamirShare> shares;
            for (i64 i = 0; i < n; ++i) { cr::ShamirShare s{}; s.index = static_cast<std::uint8_t>(in.next()); s.value = in.id32(); shares.push_back(s); }
            hv::guarded(out, [&] { const auto sec = cr::Shamir::combine(shares, t); out.put(0); out.raw(sec); });
        } else if (mode == 4) {
            const auto x = static_cast<std::uint8_t>(in.next()), c0 = static_cast<std::uint8_t>(in.next());
            const auto cs = in.bytes();
            out.put(cr::evaluate_polynomial(x, c0, cs, exp_t, log_t));
        } else out.put(-1);
    }, 60);
}
