// "manifest" family (C17, C18): real encode_manifest / decode_manifest.
#include "common.hpp"
#include "ephemeralnet/protocol/Manifest.hpp"
using namespace ephemeralnet;
using namespace ephemeralnet::protocol;
using hv::In; using hv::Out; using hv::i64;

template <std::size_t N> static std::array<std::uint8_t, N> arr(In& in) {
    std::array<std::uint8_t, N> a{};
    for (auto& x : a) x = static_cast<std::uint8_t>(in.next() & 0xFF);
    return a;
}

static Manifest parse_manifest(In& in) {
    Manifest m{};
    m.chunk_id = arr<32>(in); m.chunk_hash = arr<32>(in); m.nonce.bytes = arr<12>(in);
    m.threshold = static_cast<std::uint8_t>(in.next()); m.total_shares = static_cast<std::uint8_t>(in.next());
    const i64 hi = in.next(); const i64 lo = in.next();
    m.expires_at = std::chrono::system_clock::time_point{std::chrono::nanoseconds{static_cast<i64>(static_cast<__int128>(hi) * 1000000000 + lo)}};
    const i64 ns = in.next();
    for (i64 i = 0; i < ns; ++i) { KeyShard s{}; s.index = static_cast<std::uint8_t>(in.next()); s.value = arr<32>(in); m.shards.push_back(s); }
    const i64 nm = in.next();
    for (i64 i = 0; i < nm; ++i) { auto k = in.str(); auto v = in.str(); m.metadata.emplace(std::move(k), std::move(v)); }
    const i64 nh = in.next();
    for (i64 i = 0; i < nh; ++i) { DiscoveryHint h{}; h.scheme = in.str(); h.transport = in.str(); h.endpoint = in.str(); h.priority = static_cast<std::uint8_t>(in.next()); m.discovery_hints.push_back(std::move(h)); }
    m.security.token_challenge_bits = static_cast<std::uint8_t>(in.next());
    m.security.advisory = in.str();
    m.security.has_attestation_digest = in.next() != 0;
    if (m.security.has_attestation_digest) m.security.attestation_digest = arr<32>(in);
    const i64 nf = in.next();
    for (i64 i = 0; i < nf; ++i) { FallbackHint f{}; f.uri = in.str(); f.priority = static_cast<std::uint8_t>(in.next()); m.fallback_hints.push_back(std::move(f)); }
    return m;
}

static void ser_manifest(const Manifest& m, Out& out) {
    out.raw(m.chunk_id); out.raw(m.chunk_hash); out.raw(m.nonce.bytes);
    out.put(m.threshold); out.put(m.total_shares);
    const i64 ns = std::chrono::duration_cast<std::chrono::nanoseconds>(m.expires_at.time_since_epoch()).count();
    i64 hi = ns / 1000000000LL, lo = ns % 1000000000LL;
    if (lo < 0) { lo += 1000000000LL; hi -= 1; }
    out.put(hi); out.put(lo);
    out.put(static_cast<i64>(m.shards.size()));
    for (const auto& s : m.shards) { out.put(s.index); out.raw(s.value); }
    out.put(static_cast<i64>(m.metadata.size()));
    for (const auto& e : m.metadata) { out.bytes(e.first); out.bytes(e.second); }
    out.put(static_cast<i64>(m.discovery_hints.size()));
    for (const auto& h : m.discovery_hints) { out.bytes(h.scheme); out.bytes(h.transport); out.bytes(h.endpoint); out.put(h.priority); }
    out.put(m.security.token_challenge_bits); out.bytes(m.security.advisory);
    if (m.security.has_attestation_digest) { out.put(1); out.raw(m.security.attestation_digest); } else out.put(0);
    out.put(static_cast<i64>(m.fallback_hints.size()));
    for (const auto& f : m.fallback_hints) { out.bytes(f.uri); out.put(f.priority); }
}

static void decode_into(const std::string& uri, Out& out) {
    // exact-size heap copy of the string contents so that over-reads are visible to ASan
    std::string tight(uri.data(), uri.size());
    tight.shrink_to_fit();
    Out tmp;
    if (hv::guarded(tmp, [&] { const auto m = decode_manifest(tight); tmp.put(0); ser_manifest(m, tmp); })) {
        for (auto x : tmp.v) out.put(x);
    } else {
        out.put(tmp.v[tmp.v.size() - 2]); out.put(tmp.v.back());
    }
}

int main() {
    return hv::main_loop([](In& in, Out& out) {
        const i64 mode = in.next();
        if (mode == 1) {
            const auto m = parse_manifest(in);
            std::string uri;
            if (!hv::guarded(out, [&] { uri = encode_manifest(m); })) return;
            out.put(0); out.bytes(uri);
            decode_into(uri, out);
        } else if (mode == 2) {
            decode_into(in.str(), out);
        } else out.put(-1);
    });
}
