// "handshake" family (C20): the real Node::handle_transport_handshake (through the friend class) under the harness clock.
// Valid nonces come from the node's own solver (compute_handshake_pow, anonymous namespace of Node.cpp, #included);
// invalid ones have exactly one zero bit too few, counted here.  Observed: acknowledged?, which offered public key the
// registered session key belongs to, the claimed peer's reputation, last_handshake_success.
#define HV_VIRTUAL_CLOCK
#include "common.hpp"
#include <sys/socket.h>
#include <map>
namespace ephemeralnet { class Node; }
namespace ephemeralnet::test { class NodeTestAccess; }
#include "core/Node.cpp"
#include "ephemeralnet/crypto/HmacSha256.hpp"
namespace ephemeralnet::test {
class NodeTestAccess {
public:
    static bool handshake(Node& n, const PeerId& p, const protocol::TransportHandshakePayload& pl) { return n.handle_transport_handshake(p, pl).has_value(); }
    static std::uint32_t scalar(const Node& n) { return n.identity_scalar_; }
};
}
using namespace ephemeralnet;
using hv::In; using hv::Out; using hv::i64;
using TA = ephemeralnet::test::NodeTestAccess;

static int zero_bits(const std::array<std::uint8_t, 32>& dg) {
    int n = 0;
    for (auto b : dg) { if (b == 0) { n += 8; continue; } for (int k = 7; k >= 0 && !((b >> k) & 1); --k) ++n; break; }
    return n;
}

int main() {
    return hv::main_loop([](In& in, Out& out) {
        hv::g_now_ns = 1'000'000'000'000LL;
        const i64 cooldown = in.next();
        Config cfg{};
        cfg.handshake_cooldown = std::chrono::seconds(cooldown);
        cfg.handshake_pow_difficulty = 5;
        cfg.identity_seed = 77u; cfg.relay_enabled = false; cfg.storage_persistent_enabled = false;
        PeerId self{}; self[0] = 0x20;
        PeerId peer{}; peer[0] = 0x66; peer[9] = 0x01;
        auto* node = new Node(self, cfg);
        std::map<std::pair<i64, i64>, std::uint64_t> nonces;      // (pub, nonce token) -> real nonce
        std::vector<i64> ev;
        while (!in.eof()) ev.push_back(in.next());
        for (std::size_t i = 0; i + 4 <= ev.size(); i += 4) {
            const i64 dt = ev[i], pub = ev[i + 1], tok = ev[i + 2], valid = ev[i + 3];
            hv::g_now_ns += (dt > 0 ? dt : 0) * 1'000'000'000LL;
            const auto upub = static_cast<std::uint32_t>(pub);
            auto key = std::make_pair(pub, tok);
            if (!nonces.count(key)) {
                std::uint64_t n = 0;
                if (valid) {
                    // distinct valid nonces for the same key: continue the search after the solver's first answer
                    compute_handshake_pow(peer, self, upub, 5, n);
                    for (i64 k = 0; k < tok; ++k) { do { ++n; } while (zero_bits(handshake_pow_digest(peer, self, upub, n)) < 5); }
                } else {
                    n = static_cast<std::uint64_t>(tok) * 7919u + 1u;
                    while (zero_bits(handshake_pow_digest(peer, self, upub, n)) != 4) ++n;
                }
                nonces[key] = n;
            }
            protocol::TransportHandshakePayload pl{};
            pl.public_identity = upub; pl.work_nonce = nonces[key]; pl.requested_version = 4;
            const bool ok = TA::handshake(*node, peer, pl);
            out.put(ok ? 1 : 0);
            // whose key is registered for the claimed peer?
            const auto held = node->session_key(peer);
            i64 owner = -1;
            if (held) {
                owner = -2;
                for (const auto& kv : nonces) {
                    const auto cand = static_cast<std::uint32_t>(kv.first.first);
                    const auto shared = network::KeyExchange::derive_shared_secret(TA::scalar(*node), cand);
                    const auto material = make_handshake_material(node->public_identity(), cand);
                    const auto k = crypto::HmacSha256::compute(std::span<const std::uint8_t>(shared.bytes), std::span<const std::uint8_t>(material));
                    if (k == *held) { owner = kv.first.first; break; }
                }
            }
            out.put(owner);
            out.put(node->reputation_score(peer));
            const auto ls = node->last_handshake_success(peer);
            out.put(ls ? (*ls ? 1 : 0) : -1);
        }
    }, 120);
}
