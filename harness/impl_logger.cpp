// "logger" family (C37): the real StructuredLogger::escape_json and StructuredLogger::log (std::clog captured).
#include "common.hpp"
#include <mutex>
#include <utility>
#define private public
#include "ephemeralnet/daemon/StructuredLogger.hpp"
#undef private
using namespace ephemeralnet::daemon;
using hv::In; using hv::Out; using hv::i64;

int main() {
    return hv::main_loop([](In& in, Out& out) {
        const i64 mode = in.next();
        if (mode == 1) {
            const auto s = in.str();
            // exact-size copy so that an over-read of the view is visible to ASan
            const auto b = std::vector<std::uint8_t>(s.begin(), s.end());
            hv::TightBuf tb(b);
            out.bytes(StructuredLogger::escape_json(std::string_view(reinterpret_cast<const char*>(tb.p), tb.n)));
        } else if (mode == 2) {
            const i64 lvl = in.next();
            const auto ev = in.str();
            const i64 n = in.next();
            StructuredLogger::FieldList fields;
            for (i64 i = 0; i < n; ++i) { auto k = in.str(); auto v = in.str(); fields.emplace_back(std::move(k), std::move(v)); }
            std::ostringstream cap;
            auto* old = std::clog.rdbuf(cap.rdbuf());
            auto& lg = StructuredLogger::instance();
            lg.set_enabled(true);
            lg.log(lvl == 1 ? StructuredLogger::Level::Warning : lvl == 2 ? StructuredLogger::Level::Error : StructuredLogger::Level::Info,
                   ev, std::move(fields));
            std::clog.rdbuf(old);
            std::string line = cap.str();
            // take the timestamp's content out (it is the wall clock); report whether it had the ISO shape
            const std::string pre = "{\"ts\":\"";
            i64 ts_ok = 0;
            if (line.compare(0, pre.size(), pre) == 0) {
                const auto q = line.find('"', pre.size());
                if (q != std::string::npos) {
                    const std::string ts = line.substr(pre.size(), q - pre.size());
                    ts_ok = ts.size() == 24 && ts[4] == '-' && ts[7] == '-' && ts[10] == 'T' && ts[13] == ':' && ts[16] == ':' &&
                            ts[19] == '.' && ts[23] == 'Z';
                    for (std::size_t i = 0; i < ts.size() && ts_ok; ++i)
                        if (i != 4 && i != 7 && i != 10 && i != 13 && i != 16 && i != 19 && i != 23 && (ts[i] < '0' || ts[i] > '9')) ts_ok = 0;
                    line.erase(pre.size(), q - pre.size());
                }
            }
            out.put(ts_ok);
            out.bytes(line);
        } else out.put(-1);
    });
}
