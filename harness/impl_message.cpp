// Implementation side of the "message" family (C13, C15, C16): drives the real
// ephemeralnet::protocol::{encode,decode,encode_signed,decode_signed}.
#include "common.hpp"
#include "ephemeralnet/protocol/Message.hpp"

using namespace ephemeralnet;
using namespace ephemeralnet::protocol;
using hv::In; using hv::Out; using hv::i64;

static Message parse_message(In& in) {
    Message m{};
    m.version = static_cast<std::uint8_t>(in.next());
    m.type = static_cast<MessageType>(static_cast<std::uint8_t>(in.next()));
    const i64 kind = in.next();
    switch (kind) {
        case 0: {
            AnnouncePayload p{};
            p.chunk_id = in.id32(); p.peer_id = in.id32(); p.endpoint = in.str();
            p.ttl = std::chrono::seconds(in.next()); p.manifest_uri = in.str();
            p.assigned_shards = in.bytes(); p.work_nonce = in.u64();
            m.payload = std::move(p); break;
        }
        case 1: { RequestPayload p{}; p.chunk_id = in.id32(); p.requester = in.id32(); m.payload = p; break; }
        case 2: { ChunkPayload p{}; p.chunk_id = in.id32(); p.data = in.bytes(); p.ttl = std::chrono::seconds(in.next()); m.payload = std::move(p); break; }
        case 3: { AcknowledgePayload p{}; p.chunk_id = in.id32(); p.peer_id = in.id32(); p.accepted = in.next() != 0; m.payload = p; break; }
        case 4: { TransportHandshakePayload p{}; p.public_identity = static_cast<std::uint32_t>(in.next()); p.work_nonce = in.u64(); p.requested_version = static_cast<std::uint8_t>(in.next()); m.payload = p; break; }
        default: { HandshakeAckPayload p{}; p.accepted = in.next() != 0; p.negotiated_version = static_cast<std::uint8_t>(in.next()); p.responder_public = static_cast<std::uint32_t>(in.next()); m.payload = p; break; }
    }
    return m;
}

static void ser_message(const Message& m, Out& out) {
    out.put(m.version);
    out.put(static_cast<i64>(m.type));
    std::visit([&](const auto& p) {
        using T = std::decay_t<decltype(p)>;
        if constexpr (std::is_same_v<T, AnnouncePayload>) {
            out.put(0); out.raw(p.chunk_id); out.raw(p.peer_id); out.bytes(p.endpoint); out.put(p.ttl.count());
            out.bytes(p.manifest_uri); out.bytes(p.assigned_shards); out.u64(p.work_nonce);
        } else if constexpr (std::is_same_v<T, RequestPayload>) {
            out.put(1); out.raw(p.chunk_id); out.raw(p.requester);
        } else if constexpr (std::is_same_v<T, ChunkPayload>) {
            out.put(2); out.raw(p.chunk_id); out.bytes(p.data); out.put(p.ttl.count());
        } else if constexpr (std::is_same_v<T, AcknowledgePayload>) {
            out.put(3); out.raw(p.chunk_id); out.raw(p.peer_id); out.put(p.accepted ? 1 : 0);
        } else if constexpr (std::is_same_v<T, TransportHandshakePayload>) {
            out.put(4); out.put(p.public_identity); out.u64(p.work_nonce); out.put(p.requested_version);
        } else {
            out.put(5); out.put(p.accepted ? 1 : 0); out.put(p.negotiated_version); out.put(p.responder_public);
        }
    }, m.payload);
}

static void ser_decoded(const std::optional<Message>& r, const std::vector<std::uint8_t>& input, Out& out) {
    if (!r) { out.put(0); return; }
    out.put(1);
    ser_message(*r, out);
    const auto re = encode(*r);
    const bool prefix = re.size() <= input.size() && std::equal(re.begin(), re.end(), input.begin());
    out.put(prefix ? 1 : 0);
}

int main() {
    return hv::main_loop([](In& in, Out& out) {
        const i64 mode = in.next();
        if (mode == 1) {
            const auto m = parse_message(in);
            const auto e = encode(m);
            out.bytes(e);
            hv::TightBuf tb(e);
            ser_decoded(decode(tb.span()), e, out);
        } else if (mode == 2) {
            const auto b = in.bytes();
            hv::TightBuf tb(b);            // exact-size heap block: any over-read is an ASan report
            ser_decoded(decode(tb.span()), b, out);
        } else if (mode == 3) {
            const auto key = in.bytes();
            const auto b = in.bytes();
            hv::TightBuf tb(b);
            hv::TightBuf tk(key);
            ser_decoded(decode_signed(tb.span(), tk.span()), b, out);
        } else if (mode == 4) {
            const auto key = in.bytes();
            const auto m = parse_message(in);
            const auto e = encode_signed(m, key);
            out.bytes(e);
            hv::TightBuf tb(e);
            ser_decoded(decode_signed(tb.span(), key), e, out);
        } else {
            out.put(-1);
        }
    });
}
