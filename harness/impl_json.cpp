// "json" family (C38): update::parse_update_metadata on a string_view over an exact-size, non-NUL-terminated heap block
// (so that a one-byte over-read is an ASan report).
#include "common.hpp"
#include "ephemeralnet/core/UpdateCheck.hpp"
using hv::In; using hv::Out; using hv::i64;
namespace up = ephemeralnet::update;

static void put_opt(Out& out, const std::optional<std::string>& s) {
    if (s) { out.put(1); out.bytes(*s); } else out.put(0);
}

int main() {
    return hv::main_loop([](In& in, Out& out) {
        const i64 mode = in.next();
        const auto text = in.bytes();
        if (mode != 1) { out.put(-1); return; }
        hv::TightBuf tb(text);
        const std::string_view view(reinterpret_cast<const char*>(tb.p), tb.n);
        up::Metadata m{};
        std::string err;
        const bool ok = up::parse_update_metadata(view, m, err);
        if (!ok) { out.put(0); return; }
        out.put(1);
        out.bytes(m.version); out.bytes(m.tag); out.bytes(m.commit); out.bytes(m.channel); out.bytes(m.generated_at);
        put_opt(out, m.notes_url);
        out.put(static_cast<i64>(m.downloads.size()));
        for (const auto& d : m.downloads) {
            out.bytes(d.platform); out.bytes(d.url); put_opt(out, d.sha256); out.bytes(d.arch); out.bytes(d.format);
        }
    }, 60);
}
