// "manifestttl" family (C03): a real Node under the harness clock.  For every record a fresh chunk id and a manifest made by
// a publisher node, its expiry set to a chosen whole second, arrives through one of: Node::ingest_manifest, Node::receive_chunk
// (with the genuine replica bytes), Node::handle_announce (friend class; announce PoW difficulty 0, a new sender per record,
// an endpoint and an advertised TTL).  Read back through the friend class / opened KademliaTable: was the manifest taken, and
// the deadlines of the key-share record, the replica, the node's own announcement, the announcer's contact.
#define HV_VIRTUAL_CLOCK
#include "common.hpp"
#include <map>
#include <optional>
#include <unordered_map>
#define private public
#include "ephemeralnet/dht/KademliaTable.hpp"
#undef private
#include "ephemeralnet/core/Node.hpp"
#include "ephemeralnet/protocol/Manifest.hpp"
namespace ephemeralnet::test {
class NodeTestAccess {
public:
    static void announce(Node& n, const protocol::AnnouncePayload& p, const PeerId& s, std::uint8_t v) { n.handle_announce(p, s, v); }
    static bool pow(Node& n, protocol::AnnouncePayload& p) { return n.apply_announce_pow(p); }
    static bool cached(Node& n, const ChunkId& c) { return n.manifest_cache_.count(chunk_id_to_string(c)) != 0; }
    static KademliaTable& dht(Node& n) { return n.dht_; }
    // pending fetch of a chunk: present, wait in ms until its next attempt (-1: none / never)
    static std::pair<bool, hv::i64> fetch(Node& n, const ChunkId& c) {
        const auto it = n.pending_chunk_fetches_.find(chunk_id_to_string(c));
        if (it == n.pending_chunk_fetches_.end()) return {false, -1};
        hv::i64 wait = -1;
        if (it->second.next_attempt != std::chrono::steady_clock::time_point::max()) {
            const auto d = std::chrono::duration_cast<std::chrono::nanoseconds>(it->second.next_attempt - std::chrono::steady_clock::now()).count();
            wait = d >= 0 ? d / 1000000 : -((-d + 999999) / 1000000);
        }
        return {true, wait};
    }
    static std::optional<std::chrono::steady_clock::time_point> chunk_deadline(Node& n, const ChunkId& c) {
        for (const auto& e : n.chunk_store_.snapshot()) if (e.id == c) return e.expires_at;
        return std::nullopt;
    }
};
}
using namespace ephemeralnet;
using hv::In; using hv::Out; using hv::i64;
using TA = ephemeralnet::test::NodeTestAccess;

static i64 ms_from_now(std::chrono::steady_clock::time_point t) {
    const auto d = std::chrono::duration_cast<std::chrono::nanoseconds>(t - std::chrono::steady_clock::now()).count();
    return d >= 0 ? d / 1000000 : -((-d + 999999) / 1000000);
}

int main() {
    return hv::main_loop([](In& in, Out& out) {
        hv::g_now_ns = 1000LL * 1'000'000'000LL;
        Config cfg{};
        cfg.identity_seed = 3u; cfg.relay_enabled = false; cfg.storage_persistent_enabled = false;
        cfg.min_manifest_ttl = std::chrono::seconds(in.next()); cfg.max_manifest_ttl = std::chrono::seconds(in.next());
        cfg.announce_pow_difficulty = 0; cfg.announce_burst_limit = 1000;
        Config pc{}; pc.identity_seed = 4u; pc.relay_enabled = false; pc.storage_persistent_enabled = false; pc.announce_pow_difficulty = 0;
        PeerId self{}; self[0] = 0x03; PeerId pubid{}; pubid[0] = 0x04;
        Node node(self, cfg);
        Node publisher(pubid, pc);
        const auto base_ns = hv::g_now_ns;
        i64 idx = 0;
        while (!in.eof()) {
            const i64 path = in.next(), rem = in.next(), frac = in.next(), adv = in.next(), aux = in.next();
            ++idx;
            hv::g_now_ns = base_ns;      // the publisher works at the whole second
            ChunkId chunk{}; chunk[0] = 0xC3; chunk[1] = static_cast<std::uint8_t>(idx); chunk[2] = static_cast<std::uint8_t>(idx >> 8);
            auto manifest = publisher.store_chunk(chunk, ChunkData{1, 2, static_cast<std::uint8_t>(idx)}, std::chrono::seconds(600));
            const auto replica = publisher.export_chunk_record(chunk);
            manifest.expires_at = std::chrono::system_clock::now() + std::chrono::seconds(rem);
            const auto uri = protocol::encode_manifest(manifest);
            hv::g_now_ns = base_ns + frac * 1'000'000LL;
            PeerId sender{}; sender[0] = 0x51; sender[1] = static_cast<std::uint8_t>(idx); sender[2] = static_cast<std::uint8_t>(idx >> 8);
            if (path == 3) {
                // an announce that assigns this node a shard, from a peer that cannot be reached; a node of its own, so that
                // the fetch and the clock movement do not leak into the other records
                Config fc = cfg; fc.identity_seed = 33u;
                fc.fetch_retry_initial_backoff = std::chrono::seconds(aux); fc.fetch_retry_max_backoff = std::chrono::seconds(60);
                fc.fetch_retry_success_interval = std::chrono::seconds(15); fc.fetch_retry_attempt_limit = 0; fc.fetch_max_parallel_requests = 0;
                Node fnode(self, fc);
                protocol::AnnouncePayload p{};
                p.chunk_id = chunk; p.peer_id = sender; p.ttl = std::chrono::seconds(0); p.manifest_uri = uri;
                if (!manifest.shards.empty()) p.assigned_shards = {manifest.shards.front().index};
                TA::pow(fnode, p);
                TA::announce(fnode, p, sender, protocol::kCurrentMessageVersion);
                out.put(TA::cached(fnode, chunk) ? 1 : 0);
                auto& fd = TA::dht(fnode);
                const auto fsh = fd.shard_table_.find(chunk_id_to_string(chunk));
                out.put(fsh != fd.shard_table_.end() ? ms_from_now(fsh->second.expires_at) : -1);
                out.put(TA::fetch(fnode, chunk).first ? 1 : 0);
                hv::g_now_ns += (adv > 0 ? adv : 0) * 1'000'000LL;
                fnode.tick();
                const auto after = TA::fetch(fnode, chunk);
                out.put(after.first ? 1 : 0); out.put(after.second);
                continue;
            }
            if (path == 4) {
                // an earlier manifest for the same chunk id (another expiry: aux whole seconds), then this one
                auto first = manifest;
                first.expires_at = std::chrono::system_clock::time_point(std::chrono::nanoseconds(base_ns + hv::g_sys_offset_ns)) + std::chrono::seconds(aux);
                node.ingest_manifest(protocol::encode_manifest(first));
                node.ingest_manifest(uri);
            }
            else if (path == 0) node.ingest_manifest(uri);
            else if (path == 1) { if (replica) (void)node.receive_chunk(uri, replica->data); }
            else {
                protocol::AnnouncePayload p{};
                p.chunk_id = chunk; p.peer_id = sender; p.endpoint = "203.0.113.5:4000"; p.ttl = std::chrono::seconds(adv);
                p.manifest_uri = uri;
                TA::pow(node, p);
                TA::announce(node, p, sender, protocol::kCurrentMessageVersion);
            }
            auto& dht = TA::dht(node);
            const auto key = chunk_id_to_string(chunk);
            out.put(TA::cached(node, chunk) ? 1 : 0);
            const auto sh = dht.shard_table_.find(key);
            out.put(sh != dht.shard_table_.end() ? ms_from_now(sh->second.expires_at) : -1);
            const auto cd = TA::chunk_deadline(node, chunk);
            out.put(cd ? ms_from_now(*cd) : -1);
            i64 own = -1, contact = -1;
            const auto loc = dht.table_.find(key);
            if (loc != dht.table_.end()) for (const auto& h : loc->second.holders) {
                if (h.id == self) own = ms_from_now(h.expires_at);
                if (h.id == sender) contact = ms_from_now(h.expires_at);
            }
            out.put(own); out.put(contact);
        }
    }, 60);
}
