// "keyexchange" family (C12): KeyExchange (private modexp made reachable), Node.cpp's make_handshake_material,
// HmacSha256, and two real Nodes that handshake with each other through the public API.
#define HV_VIRTUAL_CLOCK
#include "common.hpp"
#include <random>
#define private public
#include "ephemeralnet/network/KeyExchange.hpp"
#undef private
namespace ephemeralnet::test {
class NodeTestAccess {
public:
    template <class N> static std::uint32_t scalar(const N& n) { return n.identity_scalar_; }
};
}
#include "core/Node.cpp"
#include "ephemeralnet/crypto/HmacSha256.hpp"
using hv::In; using hv::Out; using hv::i64;
namespace en = ephemeralnet;
using KX = en::network::KeyExchange;

static std::array<std::uint8_t, 32> session_key(std::uint32_t priv, std::uint32_t mine, std::uint32_t remote) {
    const auto shared = KX::derive_shared_secret(priv, remote);
    const auto material = en::make_handshake_material(mine, remote);
    return en::crypto::HmacSha256::compute(std::span<const std::uint8_t>(shared.bytes), std::span<const std::uint8_t>(material));
}

int main() {
    return hv::main_loop([](In& in, Out& out) {
        const i64 mode = in.next();
        if (mode == 1) {
            const auto b = in.u64(); const auto e = static_cast<std::uint32_t>(in.next()); const auto m = static_cast<std::uint32_t>(in.next());
            out.put(KX::modexp(b, e, m));
        } else if (mode == 2) {
            const auto a = static_cast<std::uint32_t>(in.next()), b = static_cast<std::uint32_t>(in.next());
            const auto pa = KX::compute_public(a), pb = KX::compute_public(b);
            out.put(pa); out.put(pb); out.put(KX::validate_public(pa)); out.put(KX::validate_public(pb));
            out.raw(session_key(a, pa, pb)); out.raw(session_key(b, pb, pa));
        } else if (mode == 3) {
            in.next(); in.next();   // the scalars the checker predicted (the model's inputs)
            const auto seed_a = static_cast<std::uint32_t>(in.next()), seed_b = static_cast<std::uint32_t>(in.next());
            const en::PeerId ida = in.id32(), idb = in.id32();
            en::Config ca{}; ca.identity_seed = seed_a; ca.handshake_pow_difficulty = 3;
            en::Config cb{}; cb.identity_seed = seed_b; cb.handshake_pow_difficulty = 3;
            en::Node A(ida, ca), B(idb, cb);
            const auto wa = A.generate_handshake_work(idb);
            const auto wb = B.generate_handshake_work(ida);
            const bool okb = wa && B.perform_handshake(ida, A.public_identity(), *wa);
            const bool oka = wb && A.perform_handshake(idb, B.public_identity(), *wb);
            out.put(en::test::NodeTestAccess::scalar(A)); out.put(en::test::NodeTestAccess::scalar(B));
            out.put(A.public_identity()); out.put(B.public_identity());
            out.put(oka ? 1 : 0); out.put(okb ? 1 : 0);
            const auto ka = A.session_key(idb); const auto kb = B.session_key(ida);
            if (ka) out.raw(*ka); else out.put(-7);
            if (kb) out.raw(*kb); else out.put(-7);
        } else if (mode == 6) {
            in.next(); in.next(); in.next();   // predicted scalars (the model's inputs)
            const auto seed_a = static_cast<std::uint32_t>(in.next()), seed_b = static_cast<std::uint32_t>(in.next()),
                       seed_b2 = static_cast<std::uint32_t>(in.next());
            const en::PeerId ida = in.id32(), idb = in.id32();
            en::Config ca{}; ca.identity_seed = seed_a; ca.handshake_pow_difficulty = 2;
            en::Config cb{}; cb.identity_seed = seed_b; cb.handshake_pow_difficulty = 2;
            en::Config cb2{}; cb2.identity_seed = seed_b2; cb2.handshake_pow_difficulty = 2;
            en::Node A(ida, ca);
            std::uint32_t sb = 0;
            {
                en::Node B(idb, cb);
                sb = en::test::NodeTestAccess::scalar(B);
                const auto w = B.generate_handshake_work(ida);
                const auto w2 = A.generate_handshake_work(idb);
                if (!(w && A.perform_handshake(idb, B.public_identity(), *w) && w2 && B.perform_handshake(ida, A.public_identity(), *w2))) { out.put(-8); return; }
            }
            hv::g_now_ns += 3600LL * 1'000'000'000LL;   // the peer restarts with a new identity scalar, long after the cool-down
            en::Node B2(idb, cb2);
            const auto w = B2.generate_handshake_work(ida);
            const auto w2 = A.generate_handshake_work(idb);
            if (!(w && A.perform_handshake(idb, B2.public_identity(), *w) && w2 && B2.perform_handshake(ida, A.public_identity(), *w2))) { out.put(-9); return; }
            out.put(en::test::NodeTestAccess::scalar(A)); out.put(sb); out.put(en::test::NodeTestAccess::scalar(B2));
            const auto ka = A.session_key(idb); const auto kb = B2.session_key(ida);
            if (ka) out.raw(*ka); else out.put(-7);
            if (kb) out.raw(*kb); else out.put(-7);
        } else if (mode == 4) {
            out.put(KX::validate_public(static_cast<std::uint32_t>(in.next())) ? 1 : 0);
        } else if (mode == 5) {
            const auto a = static_cast<std::uint32_t>(in.next()), rp = static_cast<std::uint32_t>(in.next()), mp = static_cast<std::uint32_t>(in.next());
            out.raw(KX::derive_shared_secret(a, rp).bytes);
            out.raw(en::make_handshake_material(mp, rp));
        } else out.put(-1);
    });
}
