// "bucket" family (C07): the real KademliaTable routing side under the harness clock; buckets_ read directly.
#define HV_VIRTUAL_CLOCK
#include "common.hpp"
#include <bit>
#include <deque>
#include <optional>
#include <unordered_map>
#define private public
#include "ephemeralnet/dht/KademliaTable.hpp"
#undef private
using namespace ephemeralnet;
using hv::In; using hv::Out; using hv::i64;

static i64 secs(std::chrono::steady_clock::time_point t) {
    return std::chrono::duration_cast<std::chrono::seconds>(t.time_since_epoch()).count();
}
static void put_contact(Out& out, const PeerContact& c) {
    out.raw(c.id);
    out.put(c.address.empty() ? -1 : std::strtoll(c.address.c_str() + 1, nullptr, 10));
    out.put(secs(c.expires_at));
}

int main() {
    return hv::main_loop([](In& in, Out& out) {
        hv::g_now_ns = 1'000'000'000'000LL;
        const PeerId self = in.id32();
        KademliaTable table(self);
        const ChunkId chunk{};   // provider side is C06's subject; one fixed chunk here
        while (!in.eof()) {
            const i64 k = in.next();
            if (k == 1) {
                PeerContact c{}; c.id = in.id32(); c.address = "a" + std::to_string(in.next());
                const i64 e = in.next();
                c.expires_at = std::chrono::steady_clock::time_point(std::chrono::seconds(e));
                table.register_peer(c);
            } else if (k == 2) {
                PeerContact c{}; c.id = in.id32(); c.address = "a" + std::to_string(in.next());
                const i64 ttl = in.next();
                table.add_contact(chunk, c, std::chrono::seconds(ttl));
            } else if (k == 3) {
                table.sweep_expired();
            } else if (k == 4) {
                const PeerId t = in.id32(); const i64 n = in.next();
                const auto r = table.closest_peers(t, static_cast<std::size_t>(n < 0 ? 0 : n));
                out.put(static_cast<i64>(r.size()));
                for (const auto& c : r) put_contact(out, c);
            } else if (k == 5) {
                const i64 dt = in.next();
                hv::g_now_ns += (dt > 0 ? dt : 0) * 1'000'000'000LL;
            } else if (k == 6) {
                Out d;   // length-prefixed so that the checker can delimit it
                for (std::size_t i = 0; i < table.buckets_.size(); ++i) {
                    const auto& b = table.buckets_[i];
                    if (b.empty()) continue;
                    d.put(static_cast<i64>(i)); d.put(static_cast<i64>(b.size()));
                    for (const auto& c : b) put_contact(d, c);
                }
                out.put(static_cast<i64>(d.v.size()));
                for (auto x : d.v) out.put(x);
            } else break;
        }
    });
}
