// "chacha" family (C09): real ChaCha20::apply and CryptoManager::{encrypt,decrypt}_with_key.
#include "common.hpp"
#include "ephemeralnet/crypto/ChaCha20.hpp"
#include "ephemeralnet/crypto/CryptoManager.hpp"
using namespace ephemeralnet;
using namespace ephemeralnet::crypto;
using hv::In; using hv::Out; using hv::i64;

static Key key_of(const std::array<std::uint8_t, 32>& a) { Key k{}; k.bytes = a; return k; }
static Nonce nonce_of(const std::vector<std::uint8_t>& v) { Nonce n{}; for (std::size_t i = 0; i < 12 && i < v.size(); ++i) n.bytes[i] = v[i]; return n; }

int main() {
    return hv::main_loop([](In& in, Out& out) {
        const i64 mode = in.next();
        if (mode == 1) {
            const auto key = key_of(in.id32());
            const auto nonce = nonce_of(in.bytes());
            const auto ctr = static_cast<std::uint32_t>(in.next());
            const auto inp = in.bytes();
            hv::TightBuf tb(inp);
            std::vector<std::uint8_t> o;
            ChaCha20::apply(key, nonce, tb.span(), o, ctr);
            out.raw(o);
        } else if (mode == 2) {
            const auto key = key_of(in.id32());
            const auto id = in.id32();
            const auto nonce = nonce_of(in.bytes());
            const auto ct = in.bytes();
            hv::TightBuf tb(ct);
            const auto p = CryptoManager::decrypt_with_key(key, id, tb.span(), nonce);
            if (p) { out.put(1); out.raw(*p); } else out.put(0);
        } else if (mode == 3) {
            // encrypt_with_key draws its own nonce: report (a) decrypt(encrypt(p)) == p,
            // (b) ciphertext == ChaCha20::apply(key, drawn nonce, p, LE32(chunk_id[0..3])), (c) size kept
            const auto key = key_of(in.id32());
            const auto id = in.id32();
            const auto p = in.bytes();
            const auto ct = CryptoManager::encrypt_with_key(key, id, p);
            const auto back = CryptoManager::decrypt_with_key(key, id, ct.data, ct.nonce);
            out.put(back && *back == p ? 1 : 0);
            std::vector<std::uint8_t> ref;
            const std::uint32_t ctr = static_cast<std::uint32_t>(id[0]) | (static_cast<std::uint32_t>(id[1]) << 8) |
                                      (static_cast<std::uint32_t>(id[2]) << 16) | (static_cast<std::uint32_t>(id[3]) << 24);
            ChaCha20::apply(key, ct.nonce, p, ref, ctr);
            out.put(ref == ct.data ? 1 : 0);
            out.put(ct.data.size() == p.size() ? 1 : 0);
        } else out.put(-1);
    });
}
