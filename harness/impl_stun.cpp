// "stun" family (C33): the real parse_stun_response (anonymous namespace of NatTraversal.cpp, textually included).
#include "common.hpp"
#include "network/NatTraversal.cpp"
using hv::In; using hv::Out; using hv::i64;

int main() {
    return hv::main_loop([](In& in, Out& out) {
        const i64 mode = in.next();
        if (mode != 1) { out.put(-1); return; }
        const auto data = in.bytes();
        const auto tx = in.bytes();
        std::array<std::uint8_t, 12> txid{};
        for (std::size_t i = 0; i < 12 && i < tx.size(); ++i) txid[i] = tx[i];
        hv::TightBuf tb(data);   // exact-size heap block: any over-read is an ASan report
        const auto r = ephemeralnet::network::parse_stun_response(tb.p, tb.n, txid);
        if (!r.has_value()) { out.put(0); return; }
        unsigned char buf[16];
        if (inet_pton(AF_INET, r->address.c_str(), buf) == 1) {
            out.put(1); out.put(1); for (int i = 0; i < 4; ++i) out.put(buf[i]);
        } else if (inet_pton(AF_INET6, r->address.c_str(), buf) == 1) {
            out.put(1); out.put(2); for (int i = 0; i < 16; ++i) out.put(buf[i]);
        } else { out.put(-3); return; }   // the reported text is not an address at all
        out.put(r->port);
    });
}
