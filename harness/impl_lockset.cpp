// "lockset" family (C36): the access table of Node's fields is produced from the current sources by the translator
// (tools/lockset: clang AST -> rows); this program is the second, independent evaluation of the decision the model makes on
// that table (which fields are racy), so that the extracted Coq function and this one are compared on the real table and on
// perturbed ones.  It does not run the node: the tie between the table and the code is the translator.
#include "common.hpp"
#include <set>
using hv::In; using hv::Out; using hv::i64;
struct Row { i64 field, write, role, line, sched; };
int main() {
    return hv::main_loop([](In& in, Out& out) {
        const i64 n = in.next(); const i64 ns = in.next();
        std::set<i64> sync; for (i64 i = 0; i < ns; ++i) sync.insert(in.next());
        std::vector<Row> rows;
        while (!in.eof()) { Row r{}; r.field = in.next(); r.write = in.next(); r.role = in.next(); r.line = in.next(); r.sched = in.next(); rows.push_back(r); }
        for (i64 x = 0; x < n; ++x) {
            if (sync.count(x)) continue;
            bool racy = false;
            for (const auto& a : rows) {
                if (a.role != 0 || a.field != x) continue;
                for (const auto& b : rows) {
                    if (b.field != x) continue;
                    const bool conflict = a.write != 0 || b.write != 0;
                    if (conflict && !(a.sched != 0 && b.sched != 0)) { racy = true; break; }
                }
                if (racy) break;
            }
            if (racy) out.put(x);
        }
    }, 60);
}
