// "control" family (C27, C28, C29): the real ControlServer::Impl (ControlServer.cpp #included; handle_client and
// send_response driven over socketpairs: no listening socket, no thread) and the real client-side response reader
// (impl_control_extra.cpp), with a real Node under the harness clock.
#define HV_VIRTUAL_CLOCK
#include "common.hpp"
#include <atomic>
#include <charconv>
#include <condition_variable>
#include <fstream>
#include <map>
#include <mutex>
#include <optional>
#include <set>
#include <thread>
#include <unordered_map>
#include <unordered_set>
#include <sys/socket.h>
namespace ephemeralnet::test {
class NodeTestAccess {
public:
    template <class N> static std::size_t manifests(N& n) { return n.manifest_cache_.size(); }
};
}
#define private public
#include "daemon/ControlServer.cpp"
#undef private
using hv::In; using hv::Out; using hv::i64;
namespace en = ephemeralnet;
namespace dm = ephemeralnet::daemon;
dm::ControlResponse hv_client_parse(int fd);

static void put_response(Out& out, const dm::ControlResponse& r, bool status_seen) {
    out.put(status_seen ? 1 : 0); out.put(r.success ? 1 : 0);
    std::map<std::string, std::string> sorted(r.fields.begin(), r.fields.end());
    out.put(static_cast<i64>(sorted.size()));
    for (const auto& [k, v] : sorted) { out.bytes(k); out.bytes(v); }
    if (r.has_payload) { out.put(1); out.bytes(r.payload); } else out.put(0);
}

// feed bytes to the client reader through a socketpair (writer thread so that large responses cannot block)
static dm::ControlResponse client_reads(const std::string& wire) {
    int sv[2];
    ::socketpair(AF_UNIX, SOCK_STREAM, 0, sv);
    std::thread w([&] { std::size_t off = 0; while (off < wire.size()) { ssize_t n = ::write(sv[1], wire.data() + off, wire.size() - off); if (n <= 0) break; off += static_cast<std::size_t>(n); } ::shutdown(sv[1], SHUT_WR); });
    auto r = hv_client_parse(sv[0]);
    w.join(); ::close(sv[0]); ::close(sv[1]);
    return r;
}

static std::string server_sends(const dm::ControlFields& fields, bool ok, const std::optional<std::vector<std::uint8_t>>& payload) {
    int sv[2];
    ::socketpair(AF_UNIX, SOCK_STREAM, 0, sv);
    std::string wire;
    std::thread rd([&] { char buf[65536]; ssize_t n; while ((n = ::read(sv[1], buf, sizeof buf)) > 0) wire.append(buf, static_cast<std::size_t>(n)); });
    if (payload) dm::ControlServer::Impl::send_response(sv[0], fields, ok, std::span<const std::uint8_t>(payload->data(), payload->size()));
    else dm::ControlServer::Impl::send_response(sv[0], fields, ok);
    ::shutdown(sv[0], SHUT_WR); rd.join(); ::close(sv[0]); ::close(sv[1]);
    return wire;
}

static std::string request(dm::ControlServer::Impl& impl, const std::string& req, const std::string& remote) {
    int sv[2];
    ::socketpair(AF_UNIX, SOCK_STREAM, 0, sv);
    std::string resp;
    std::thread rd([&] { char buf[65536]; ssize_t n; while ((n = ::read(sv[1], buf, sizeof buf)) > 0) resp.append(buf, static_cast<std::size_t>(n)); });
    (void)!::write(sv[1], req.data(), req.size());
    ::shutdown(sv[1], SHUT_WR);
    impl.handle_client(sv[0], remote);
    ::shutdown(sv[0], SHUT_WR); rd.join(); ::close(sv[0]); ::close(sv[1]);
    return resp;
}

static std::optional<std::string> read_opt(In& in) { if (in.next() == 0) return std::nullopt; return in.str(); }

int main() {
    return hv::main_loop([](In& in, Out& out) {
        hv::g_now_ns = 1'000'000'000'000LL;
        const i64 mode = in.next();
        if (mode == 1) {
            const bool ok = in.next() != 0; const i64 n = in.next();
            dm::ControlFields fields;
            for (i64 i = 0; i < n; ++i) { auto k = in.str(); auto v = in.str(); fields[k] = v; }
            std::optional<std::vector<std::uint8_t>> payload;
            if (in.next() != 0) payload = in.bytes();
            const auto wire = server_sends(fields, ok, payload);
            const auto r = client_reads(wire);
            put_response(out, r, wire.rfind("STATUS:", 0) == 0);
            return;
        }
        if (mode == 2) {
            const auto raw = in.str();
            const auto r = client_reads(raw);
            // "status seen" is not exposed by the client; it shows as the localized MESSAGE it sets
            const bool seen = !(r.fields.count("MESSAGE") && r.fields.at("MESSAGE") == "Respuesta incompleta del daemon");
            auto r2 = r; if (!seen) r2.fields.erase("MESSAGE");
            put_response(out, r2, seen);
            return;
        }
        if (mode == 6) {
            // admission of one STORE by the real parse_request + handle_store of a fresh daemon
            en::Config c6{};
            c6.identity_seed = 5u; c6.relay_enabled = false; c6.storage_persistent_enabled = false;
            c6.store_pow_difficulty = static_cast<std::uint8_t>(in.next());
            c6.min_manifest_ttl = std::chrono::seconds(in.next());
            c6.max_manifest_ttl = std::chrono::seconds(in.next());
            c6.default_chunk_ttl = std::chrono::seconds(in.next());
            c6.control_stream_max_bytes = static_cast<std::size_t>(in.next());
            const auto declared = read_opt(in);
            const auto body = in.str();
            const auto ttl = read_opt(in); const auto path = read_opt(in); const auto pow = read_opt(in);
            en::PeerId self6{}; self6[0] = 0x28;
            auto* node6 = new en::Node(self6, c6);
            std::mutex m6;
            dm::ControlServer::Impl impl6(*node6, m6, [] {});
            std::string req = "COMMAND:STORE\n";
            if (ttl) req += "TTL:" + *ttl + "\n";
            if (path) req += "PATH:" + *path + "\n";
            if (pow) req += "STORE-POW:" + *pow + "\n";
            if (declared) req += "PAYLOAD-LENGTH:" + *declared + "\n";
            req += "\n" + body;
            const auto resp = request(impl6, req, "198.51.100.28");
            static const char* kCodes[] = {"CODE:OK_STORE\n", "CODE:ERR_CONTROL_PAYLOAD_LENGTH\n", "CODE:ERR_CONTROL_PAYLOAD_TOO_LARGE\n",
                                           "CODE:ERR_CONTROL_PAYLOAD_TRUNCATED\n", "CODE:ERR_STORE_PAYLOAD_REQUIRED\n", "CODE:ERR_STORE_TTL_INVALID\n",
                                           "CODE:ERR_STORE_TTL_OUT_OF_RANGE\n", "CODE:ERR_STORE_POW_REQUIRED\n", "CODE:ERR_STORE_POW_INVALID\n"};
            i64 code = 99;
            for (i64 k = 0; k < 9; ++k) if (resp.find(kCodes[k]) != std::string::npos) { code = k; break; }
            if ((code == 0) != (resp.rfind("STATUS:OK", 0) == 0)) code = 98;
            out.put(code);
            out.put(static_cast<i64>(node6->stored_chunks().size()));
            return;
        }
        en::Config cfg{};
        cfg.identity_seed = 5u; cfg.relay_enabled = false; cfg.storage_persistent_enabled = false;
        cfg.store_pow_difficulty = 0; cfg.shard_threshold = 2; cfg.shard_total = 3;
        std::string good_nonce, bad_nonce;
        if (mode == 7) {      // the limiter sequences with store proof-of-work on: nonces for the payload "xyz" found by the generator
            cfg.store_pow_difficulty = static_cast<std::uint8_t>(in.next());
            good_nonce = std::to_string(in.next()); bad_nonce = std::to_string(in.next());
        }
        const auto configured = read_opt(in);
        cfg.control_token = configured;
        en::PeerId self{}; self[0] = 0x27;
        auto* node = new en::Node(self, cfg);
        std::mutex node_mutex;
        int stops = 0;
        dm::ControlServer::Impl impl(*node, node_mutex, [&] { ++stops; });
        // a chunk that exists, for FETCH
        en::ChunkId cid{}; cid[0] = 0x11;
        const auto manifest = node->store_chunk(cid, en::ChunkData{9, 8, 7}, std::chrono::seconds(21600));
        const std::string uri = en::protocol::encode_manifest(manifest);
        // a second manifest the node has never seen (registration is an observable effect)
        en::PeerId other{}; other[0] = 0x28; en::Config oc = cfg; oc.control_token.reset(); oc.identity_seed = 6u;
        auto* publisher = new en::Node(other, oc);
        en::ChunkId cid2{}; cid2[0] = 0x12;
        const std::string foreign_uri = en::protocol::encode_manifest(publisher->store_chunk(cid2, en::ChunkData{1}, std::chrono::seconds(600)));
        if (mode == 3) {
            const auto presented = read_opt(in); const i64 cmd = in.next();
            const i64 order = in.next();      // 0: TOKEN right after COMMAND, 1: TOKEN as the last header
            const i64 svariant = in.next();   // FETCH to a daemon-side path: additionally a non-streaming STREAM header
            const std::string tokline = presented ? "TOKEN:" + *presented + "\n" : std::string{};
            const std::string tok = order == 0 ? tokline : std::string{};
            const std::string tail = order == 0 ? std::string{} : tokline;
            const std::string outfile = "/tmp/verif-c27-" + std::to_string(::getpid()) + ".out";
            std::remove(outfile.c_str());
            const auto chunks_before = node->stored_chunks().size();
            const auto manifests_before = en::test::NodeTestAccess::manifests(*node);
            static const char* kNoStream[] = {"", "STREAM:0\n", "STREAM:no\n", "STREAM:\n", "STREAM:daemon\n"};
            std::string req;
            if (cmd == 0) req = "COMMAND:STORE\n" + tok + "TTL:600\nPAYLOAD-LENGTH:4\n" + tail + "\nabcd";
            else if (cmd == 1) req = "COMMAND:FETCH\n" + tok + "MANIFEST:" + foreign_uri + "\nSTREAM:client\n" + tail + "\n";
            else if (cmd == 2) req = "COMMAND:FETCH\n" + tok + "MANIFEST:" + uri + "\n" + kNoStream[svariant >= 0 && svariant < 5 ? svariant : 0] + "OUT:" + outfile + "\n" + tail + "\n";
            else req = "COMMAND:STOP\n" + tok + tail + "\n";
            const auto resp = request(impl, req, "198.51.100.9");
            const bool ok = resp.rfind("STATUS:OK", 0) == 0;
            const bool auth = resp.find("_UNAUTHENTICATED") != std::string::npos;
            const bool file = std::ifstream(outfile).good();
            std::remove(outfile.c_str());
            const bool effect = node->stored_chunks().size() != chunks_before || en::test::NodeTestAccess::manifests(*node) != manifests_before
                                || file || stops != 0 || impl.transport_stopped_.load();
            // [accepted?, auth error?] as the model; then the observed side effect (judge only)
            // cmd 1 targets a chunk the node does not hold: with a good token the request fails later (chunk missing) but the
            // manifest IS registered -- reported as accepted=0/auth=0 by both sides for a wrong-token-free request
            out.put(ok ? 1 : 0); out.put(auth ? 1 : 0); out.put(effect ? 1 : 0);
            return;
        }
        if (mode == 5) {
            // `eph list` end to end: k chunks stored, LIST through the real handler, the real client reader, then the CLI's own
            // splitting rule (lines of 4 comma separated tokens)
            const i64 k = in.next();
            const i64 k2 = in.next();        // chunks with a 30 s lifetime
            const i64 adv_ms = in.next();    // clock advance before LIST (e.g. into the last second of those chunks)
            for (i64 i = 0; i < k; ++i) { en::ChunkId c{}; c[0] = 0x40; c[1] = static_cast<std::uint8_t>(i); c[2] = static_cast<std::uint8_t>(i >> 8); node->store_chunk(c, en::ChunkData{1, 2}, std::chrono::seconds(600)); }
            for (i64 i = 0; i < k2; ++i) { en::ChunkId c{}; c[0] = 0x41; c[1] = static_cast<std::uint8_t>(i); node->store_chunk(c, en::ChunkData{3}, std::chrono::seconds(30)); }
            hv::g_now_ns += (adv_ms > 0 ? adv_ms : 0) * 1'000'000LL;
            const auto resp = request(impl, "COMMAND:LIST\n\n", "198.51.100.9");
            const auto r = client_reads(resp);
            out.put(r.success ? 1 : 0);
            out.put(r.fields.count("COUNT") ? std::strtoll(r.fields.at("COUNT").c_str(), nullptr, 10) : -1);
            i64 lines = 0;
            if (r.fields.count("ENTRIES")) { std::istringstream ls(r.fields.at("ENTRIES")); std::string ln; while (std::getline(ls, ln)) if (std::count(ln.begin(), ln.end(), ',') == 3) ++lines; }
            out.put(lines);
            out.put(static_cast<i64>(node->stored_chunks().size()));
            return;
        }
        if (mode == 4 || mode == 7) {
            while (!in.eof()) {
                const i64 dt = in.next(), kind = in.next(), remote = in.next();
                const auto presented = read_opt(in);
                hv::g_now_ns += (dt > 0 ? dt : 0) * 1'000'000'000LL;
                std::string tok = presented ? "TOKEN:" + *presented + "\n" : std::string{};
                if (configured) tok = "TOKEN:" + *configured + "\n";           // authenticated clients present the token
                std::string pow;
                if (mode == 7 && kind == 0) pow = "STORE-POW:" + good_nonce + "\n";
                if (mode == 7 && kind == 2) pow = "STORE-POW:" + bad_nonce + "\n";
                std::string req = kind != 1 ? "COMMAND:STORE\n" + tok + pow + "TTL:600\nPAYLOAD-LENGTH:3\n\nxyz"
                                            : "COMMAND:FETCH\n" + tok + "MANIFEST:" + uri + "\nSTREAM:client\n\n";
                const auto resp = request(impl, req, "203.0.113." + std::to_string(remote));
                const bool limited = resp.find("_RATE_LIMITED") != std::string::npos;
                const bool ok = resp.rfind("STATUS:OK", 0) == 0;
                const bool powerr = resp.find("CODE:ERR_STORE_POW_") != std::string::npos;
                out.put(ok ? 1 : (limited ? 0 : (powerr ? 2 : -9)));
            }
            return;
        }
        out.put(-1);
    }, 120);
}
