// "provider" family (C06): the real KademliaTable under the harness clock.
#define HV_VIRTUAL_CLOCK
#include "common.hpp"
#include "ephemeralnet/dht/KademliaTable.hpp"
using namespace ephemeralnet;
using hv::In; using hv::Out; using hv::i64;

static PeerId pid(i64 p) { PeerId id{}; id[0] = static_cast<std::uint8_t>((p + 1) & 0xFF); id[1] = static_cast<std::uint8_t>(((p + 1) >> 8) & 0xFF); id[31] = 0x5a; return id; }
static ChunkId cid(i64 c) { ChunkId id{}; id[0] = static_cast<std::uint8_t>(c & 0xFF); id[1] = static_cast<std::uint8_t>((c >> 8) & 0xFF); id[30] = 0xc3; return id; }
static i64 peer_of(const PeerId& id) { return (static_cast<i64>(id[0]) | (static_cast<i64>(id[1]) << 8)) - 1; }

int main() {
    return hv::main_loop([](In& in, Out& out) {
        hv::g_now_ns = 1'000'000'000'000LL;
        PeerId self{}; self[0] = 0xEE; self[5] = 0x77;
        KademliaTable table(self);
        while (!in.eof()) {
            const i64 k = in.next();
            if (k == 1) {
                const i64 c = in.next(), p = in.next(), ttl = in.next();
                PeerContact contact{}; contact.id = pid(p); contact.address = "10.0.0." + std::to_string(p);
                table.add_contact(cid(c), contact, std::chrono::seconds(ttl));
            } else if (k == 2) {
                const i64 c = in.next(), p = in.next();
                table.withdraw_contact(cid(c), pid(p));
            } else if (k == 3) {
                const i64 c = in.next();
                auto hs = table.find_providers(cid(c));
                std::sort(hs.begin(), hs.end(), [](const PeerContact& a, const PeerContact& b) { return peer_of(a.id) < peer_of(b.id); });
                out.put(static_cast<i64>(hs.size()));
                for (const auto& h : hs) {
                    out.put(peer_of(h.id));
                    out.put(std::chrono::duration_cast<std::chrono::seconds>(h.expires_at.time_since_epoch()).count());
                }
            } else if (k == 4) {
                table.sweep_expired();
                out.put(static_cast<i64>(table.snapshot_locators().size()));
            } else if (k == 5) {
                const i64 dt = in.next();
                hv::g_now_ns += (dt > 0 ? dt : 0) * 1'000'000'000LL;
            } else break;
        }
    });
}
