// "content" family (C11): a real Node A stores a payload (std::random_device replaced at link time, so the chunk key, the
// seed of the nonce generator and the Shamir coefficients are the scripted values the model receives), its held bytes and
// manifest are read back, the local fetch is taken; the (possibly tampered) manifest and replica bytes are handed to a
// second real Node B through receive_chunk, and to the CLI's decrypt_chunk_with_manifest (copied verbatim from the current
// src/main.cpp by tools/props/C11.py).
#include "common.hpp"
#include <random>
namespace hvrd { std::vector<unsigned> script; std::size_t pos = 0; }
namespace std {
void random_device::_M_init(const std::string&) {}
void random_device::_M_fini() {}
random_device::result_type random_device::_M_getval() {
    return hvrd::pos < hvrd::script.size() ? hvrd::script[hvrd::pos++] : 0x9E3779B9u;
}
}
#include "ephemeralnet/core/Node.hpp"
#include "ephemeralnet/crypto/CryptoManager.hpp"
#include "ephemeralnet/crypto/Shamir.hpp"
#include "ephemeralnet/crypto/Sha256.hpp"
#include "ephemeralnet/protocol/Manifest.hpp"
#include "ephemeralnet/protocol/Message.hpp"
namespace protocol = ephemeralnet::protocol;
#include "c11_cli.hpp"
using hv::In; using hv::Out; using hv::i64;
namespace en = ephemeralnet;

static void put_opt(Out& out, const std::optional<en::ChunkData>& v) { if (v) { out.put(1); out.bytes(*v); } else out.put(0); }

int main() {
    return hv::main_loop([](In& in, Out& out) {
        const en::ChunkId cid = in.id32();
        const i64 t = in.next(), n = in.next();
        const auto data = in.bytes();
        const auto key = in.id32();
        for (int i = 0; i < 12; ++i) in.next();   // the nonce the checker predicted from the seed (the model's input)
        const auto rnd = in.bytes();
        const i64 kind = in.next(), pos = in.next(), val = in.next();
        const auto seed = static_cast<unsigned>(in.next());
        const bool again = in.next() != 0;
        std::vector<std::uint8_t> data2, rnd2; std::array<std::uint8_t, 32> key2{}; unsigned seed2 = 0;
        if (again) {
            data2 = in.bytes(); key2 = in.id32();
            for (int i = 0; i < 12; ++i) in.next();
            rnd2 = in.bytes(); seed2 = static_cast<unsigned>(in.next());
        }
        en::Config ca{}; ca.identity_seed = 11u; ca.relay_enabled = false; ca.storage_persistent_enabled = false;
        ca.shard_threshold = static_cast<std::uint8_t>(t); ca.shard_total = static_cast<std::uint8_t>(n);
        en::Config cb = ca; cb.identity_seed = 12u;
        en::PeerId ida{}; ida[0] = 0x11; en::PeerId idb{}; idb[0] = 0x12;
        en::Node A(ida, ca), B(idb, cb);
        hvrd::script.clear(); hvrd::pos = 0;
        for (std::size_t i = 0; i < key.size(); ++i) hvrd::script.push_back(key[i] | static_cast<unsigned>((i * 2654435761u) & 0xFFFFFF00u));
        hvrd::script.push_back(seed);
        for (std::size_t i = 0; i < rnd.size(); ++i) hvrd::script.push_back(rnd[i] | static_cast<unsigned>(((i + 7) * 40503u) << 8));
        protocol::Manifest m{};
        if (!hv::guarded(out, [&] { m = A.store_chunk(cid, data, std::chrono::seconds(600)); })) return;
        hvrd::script.clear();
        const auto rec = A.export_chunk_record(cid);
        if (!rec) { out.put(-20); return; }
        out.bytes(rec->data);
        out.raw(m.chunk_hash); out.raw(m.nonce.bytes);
        out.put(m.threshold); out.put(m.total_shares); out.put(static_cast<i64>(m.shards.size()));
        for (const auto& s : m.shards) { out.put(s.index); out.raw(s.value); }
        if (!hv::guarded(out, [&] { put_opt(out, A.fetch_chunk(cid)); })) return;
        // the replica as another node receives it
        auto mt = m; auto ct = rec->data;
        auto flip = [&](auto& bytes, i64 p, i64 v) { if (p >= 0 && static_cast<std::size_t>(p) < bytes.size()) bytes[static_cast<std::size_t>(p)] ^= static_cast<std::uint8_t>(v); };
        if (kind == 1) flip(ct, pos, val);
        else if (kind == 2) flip(mt.chunk_hash, pos, val);
        else if (kind == 3) flip(mt.nonce.bytes, pos, val);
        else if (kind == 4) { const auto k = static_cast<std::size_t>(pos / 32); if (k < mt.shards.size()) flip(mt.shards[k].value, pos % 32, val); }
        else if (kind == 5) mt.threshold = static_cast<std::uint8_t>(val);
        else if (kind == 6) { if (static_cast<std::size_t>(pos) < mt.shards.size() && static_cast<std::size_t>(val) < mt.shards.size()) mt.shards[static_cast<std::size_t>(pos)].index = mt.shards[static_cast<std::size_t>(val)].index; }
        else if (kind == 7) ct.resize(std::min<std::size_t>(ct.size(), static_cast<std::size_t>(pos)));
        else if (kind == 8) ct.insert(ct.end(), static_cast<std::size_t>(val), std::uint8_t{90});
        const auto uri = protocol::encode_manifest(mt);
        std::optional<en::ChunkData> got;
        const bool ok = hv::guarded(out, [&] { got = B.receive_chunk(uri, ct); put_opt(out, got); });
        // what B holds afterwards, and what the CLI makes of the same manifest and bytes
        out.put(static_cast<i64>(B.stored_chunks().size()));
        hv::guarded(out, [&] { put_opt(out, B.fetch_chunk(cid)); });
        protocol::ChunkPayload payload{}; payload.chunk_id = cid; payload.data = ct; payload.ttl = std::chrono::seconds(60);
        hv::guarded(out, [&] { put_opt(out, decrypt_chunk_with_manifest(protocol::decode_manifest(uri), payload)); });
        (void)ok;
        // the same replica also reaches the node that already holds the chunk; whatever the verdict, its own lookup must go on
        // returning the payload (a refusal leaves no trace)
        hv::guarded(out, [&] { put_opt(out, A.receive_chunk(uri, ct)); });
        hv::guarded(out, [&] { put_opt(out, A.fetch_chunk(cid)); });
        if (again) {
            // the same chunk id is stored again: new payload, key, nonce and shares replace the first ones everywhere
            hvrd::script.clear(); hvrd::pos = 0;
            for (std::size_t i = 0; i < key2.size(); ++i) hvrd::script.push_back(key2[i] | static_cast<unsigned>((i * 2654435761u) & 0xFFFFFF00u));
            hvrd::script.push_back(seed2);
            for (std::size_t i = 0; i < rnd2.size(); ++i) hvrd::script.push_back(rnd2[i] | static_cast<unsigned>(((i + 7) * 40503u) << 8));
            protocol::Manifest m2{};
            if (!hv::guarded(out, [&] { m2 = A.store_chunk(cid, data2, std::chrono::seconds(600)); })) return;
            hvrd::script.clear();
            const auto rec2 = A.export_chunk_record(cid);
            if (!rec2) { out.put(-21); return; }
            out.bytes(rec2->data);
            hv::guarded(out, [&] { put_opt(out, A.fetch_chunk(cid)); });
            const auto uri2 = protocol::encode_manifest(m2);
            hv::guarded(out, [&] { put_opt(out, B.receive_chunk(uri2, rec2->data)); });
            hv::guarded(out, [&] { put_opt(out, B.fetch_chunk(cid)); });
        }
    }, 60);
}
