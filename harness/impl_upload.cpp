// "upload" family (C23): a real Node under the harness clock; its peers are the far ends of socketpairs whose near ends the
// node's SessionManager has adopted as live sessions (after a real handshake, so the node holds a session key for them).
// Requests and acknowledgements are handed to the real Node::handle_request / handle_acknowledge through the friend class,
// ticks go through Node::tick.  What the node puts on the wire is read back from the far ends, decrypted with the session
// key (ChaCha20) and decoded (decode_signed): CHUNK frames and negative ACKs, per peer and chunk.  The two bookkeeping maps
// are read through the friend class.
#define HV_VIRTUAL_CLOCK
#include "common.hpp"
#include <sys/socket.h>
#include <fcntl.h>
#include <map>
#include <tuple>
#include "ephemeralnet/core/Node.hpp"
#include "ephemeralnet/crypto/ChaCha20.hpp"
#include "ephemeralnet/protocol/Message.hpp"
namespace ephemeralnet::test {
class NodeTestAccess {
public:
    static void request(Node& n, const protocol::RequestPayload& p, const PeerId& s) { n.handle_request(p, s); }
    static void ack(Node& n, const protocol::AcknowledgePayload& p, const PeerId& s) { n.handle_acknowledge(p, s); }
    static std::size_t active(Node& n) { return n.active_uploads_.size(); }
    static std::size_t pending(Node& n) { return n.pending_uploads_.size(); }
    static std::size_t per_peer(Node& n, const PeerId& p) {
        const auto it = n.active_uploads_per_peer_.find(peer_id_to_string(p));
        return it == n.active_uploads_per_peer_.end() ? 0 : it->second;
    }
    static bool adopt(Node& n, const PeerId& peer, int fd) { return n.sessions_.adopt_outbound_socket(peer, fd, true); }
};
}
using namespace ephemeralnet;
using hv::In; using hv::Out; using hv::i64;
using TA = ephemeralnet::test::NodeTestAccess;

static PeerId pid(i64 p) { PeerId id{}; id[0] = 0x50; id[1] = static_cast<std::uint8_t>(p); id[31] = 0x23; return id; }
static ChunkId cid(i64 c) { ChunkId id{}; id[0] = static_cast<std::uint8_t>(c & 0xFF); id[1] = static_cast<std::uint8_t>((c >> 8) & 0xFF); id[31] = 0xC3; return id; }
static i64 chunk_of(const ChunkId& id) { return static_cast<i64>(id[0]) | (static_cast<i64>(id[1]) << 8); }

struct Peer { i64 kind = 0; int fd = -1; std::vector<std::uint8_t> buf; };

// frames on the session wire: 12-byte nonce, 4-byte big-endian length, ciphertext
static void drain(Node& node, i64 p, Peer& peer, std::vector<std::tuple<i64, i64, i64>>& frames) {
    if (peer.fd < 0) return;
    std::uint8_t tmp[65536];
    for (;;) { const ssize_t n = ::recv(peer.fd, tmp, sizeof tmp, MSG_DONTWAIT); if (n <= 0) break; peer.buf.insert(peer.buf.end(), tmp, tmp + n); }
    const auto key = node.session_key(pid(p));
    std::size_t off = 0;
    while (peer.buf.size() - off >= 16) {
        const std::size_t len = (static_cast<std::size_t>(peer.buf[off + 12]) << 24) | (static_cast<std::size_t>(peer.buf[off + 13]) << 16)
                              | (static_cast<std::size_t>(peer.buf[off + 14]) << 8) | peer.buf[off + 15];
        if (peer.buf.size() - off - 16 < len) break;
        crypto::Nonce nonce{}; std::copy(peer.buf.begin() + off, peer.buf.begin() + off + 12, nonce.bytes.begin());
        std::vector<std::uint8_t> ct(peer.buf.begin() + off + 16, peer.buf.begin() + off + 16 + len), pt(len);
        off += 16 + len;
        if (!key) { frames.emplace_back(-5, p, 0); continue; }
        crypto::Key k{}; k.bytes = *key;
        crypto::ChaCha20::apply(k, nonce, ct, pt, 0u);
        const auto msg = protocol::decode_signed(pt, std::span<const std::uint8_t>(*key));
        if (!msg) { frames.emplace_back(-6, p, 0); continue; }
        if (msg->type == protocol::MessageType::Chunk) {
            frames.emplace_back(1, p, chunk_of(std::get<protocol::ChunkPayload>(msg->payload).chunk_id));
        } else if (msg->type == protocol::MessageType::Acknowledge) {
            const auto& a = std::get<protocol::AcknowledgePayload>(msg->payload);
            frames.emplace_back(a.accepted ? 2 : 0, p, chunk_of(a.chunk_id));
        } else frames.emplace_back(3, p, 0);
    }
    peer.buf.erase(peer.buf.begin(), peer.buf.begin() + static_cast<std::ptrdiff_t>(off));
}

int main() {
    return hv::main_loop([](In& in, Out& out) {
        hv::g_now_ns = 1'000'000'000'000LL;
        Config cfg{};
        cfg.identity_seed = 23u; cfg.relay_enabled = false; cfg.storage_persistent_enabled = false;
        cfg.handshake_pow_difficulty = 2;
        cfg.upload_max_parallel_transfers = static_cast<std::uint16_t>(in.next());
        cfg.upload_max_transfers_per_peer = static_cast<std::uint16_t>(in.next());
        cfg.upload_transfer_timeout = std::chrono::seconds(in.next());
        cfg.upload_reconsider_interval = std::chrono::seconds(in.next());
        cfg.key_rotation_interval = std::chrono::seconds(3600);
        PeerId self{}; self[0] = 0x23;
        auto* node = new Node(self, cfg);            // owns live sessions with reader threads: never destroyed
        const i64 np = in.next();
        std::vector<Peer> peers(static_cast<std::size_t>(np) + 1);
        for (i64 p = 1; p <= np; ++p) {
            auto& peer = peers[static_cast<std::size_t>(p)];
            peer.kind = in.next();
            if (peer.kind == 0) continue;
            Config pc{}; pc.identity_seed = static_cast<std::uint32_t>(100 + p); pc.handshake_pow_difficulty = 2;
            pc.relay_enabled = false; pc.storage_persistent_enabled = false;
            Node remote(pid(p), pc);
            const auto work = remote.generate_handshake_work(self);
            if (!work || !node->perform_handshake(pid(p), remote.public_identity(), *work)) { out.put(-8); return; }
            if (peer.kind == 1) {
                int sv[2];
                if (::socketpair(AF_UNIX, SOCK_STREAM, 0, sv) != 0) { out.put(-9); return; }
                int big = 4 << 20; ::setsockopt(sv[0], SOL_SOCKET, SO_SNDBUF, &big, sizeof big);
                if (!TA::adopt(*node, pid(p), sv[0])) { out.put(-10); return; }
                peer.fd = sv[1];
            }
        }
        const i64 nserv = in.next();
        for (i64 c = 1; c <= nserv; ++c) node->store_chunk(cid(c), ChunkData{static_cast<std::uint8_t>(c), 2, 3}, std::chrono::seconds(21600));
        while (!in.eof()) {
            const i64 code = in.next(), a = in.next(), b = in.next();
            if (code == 0) { protocol::RequestPayload rq{}; rq.chunk_id = cid(b); rq.requester = pid(a); TA::request(*node, rq, pid(a)); }
            else if (code == 1) { protocol::AcknowledgePayload ak{}; ak.chunk_id = cid(b); ak.peer_id = pid(a); ak.accepted = true; TA::ack(*node, ak, pid(a)); }
            else if (code == 2) node->tick();
            else hv::g_now_ns += (a > 0 ? a : 0) * 1'000'000LL;
            std::vector<std::tuple<i64, i64, i64>> frames;
            for (i64 p = 1; p <= np; ++p) drain(*node, p, peers[static_cast<std::size_t>(p)], frames);
            std::sort(frames.begin(), frames.end(), [](const auto& x, const auto& y) {
                return std::make_tuple(std::get<1>(x), std::get<2>(x), std::get<0>(x)) < std::make_tuple(std::get<1>(y), std::get<2>(y), std::get<0>(y)); });
            out.put(static_cast<i64>(frames.size()));
            for (const auto& [k, p, c] : frames) { out.put(k); out.put(p); out.put(c); }
            out.put(static_cast<i64>(TA::active(*node))); out.put(static_cast<i64>(TA::pending(*node)));
            for (i64 p = 1; p <= np; ++p) out.put(static_cast<i64>(TA::per_peer(*node, pid(p))));
        }
        // closing the far ends lets the node's reader threads see end-of-stream, close their sockets and exit
        for (auto& peer : peers) if (peer.fd >= 0) ::close(peer.fd);
    }, 60);
}
