// "configlayer" family (C32): src/main.cpp is #included (its main renamed), so the real load_configuration -- load_document
// with the project's own JSON reader, resolve_profile, collect_environment_overrides, merge_objects, apply_profile_to_options --
// runs on a document the checker wrote, with the command-line options (--profile, --env and ten settings) pre-set as the
// case says.  Read back: the ten settings of GlobalOptions, or the code of the ConfigError.
#include "common.hpp"
#include <fstream>
#define main eph_cli_main
#include "main.cpp"
#undef main
using hv::In; using hv::Out; using hv::i64;

static void skip_names(In& in) { const i64 n = in.next(); for (i64 i = 0; i < n; ++i) { in.str(); in.next(); } }
static std::optional<std::string> opt_str(In& in) { if (in.next() == 0) return std::nullopt; return in.str(); }
static std::optional<i64> opt_int(In& in) { if (in.next() == 0) return std::nullopt; return in.next(); }
template <class T> static void put_opt(Out& out, const std::optional<T>& v) { if (v) { out.put(1); out.put(static_cast<i64>(*v)); } else out.put(0); }

int main() {
    static int counter = 0;
    return hv::main_loop([](In& in, Out& out) {
        const i64 skip = in.next();
        for (i64 i = 0; i < skip; ++i) in.next();
        skip_names(in); skip_names(in);
        GlobalOptions options{};
        options.profile_name = opt_str(in);
        options.environment = opt_str(in);
        if (auto v = opt_int(in)) options.control_port = static_cast<std::uint16_t>(*v);
        if (auto v = opt_int(in)) options.transport_listen_port = static_cast<std::uint16_t>(*v);
        options.control_token = opt_str(in);
        if (auto v = opt_int(in)) options.default_ttl_seconds = static_cast<std::uint64_t>(*v);
        if (auto v = opt_int(in)) options.min_ttl_seconds = static_cast<std::uint64_t>(*v);
        if (auto v = opt_int(in)) options.max_ttl_seconds = static_cast<std::uint64_t>(*v);
        if (auto v = opt_int(in)) options.announce_pow_difficulty = static_cast<std::uint64_t>(*v);
        if (auto v = opt_int(in)) { options.persistent = *v != 0; options.persistent_set = true; }
        if (auto v = opt_int(in)) { options.wipe_passes = static_cast<std::uint8_t>(*v); options.wipe_passes_set = true; }
        if (auto v = opt_int(in)) options.key_rotation_seconds = static_cast<std::uint64_t>(*v);
        if (auto v = opt_int(in)) options.fetch_parallel = static_cast<std::uint16_t>(*v);
        const auto json = in.str();
        const auto path = std::filesystem::temp_directory_path() / ("verif-c32-" + std::to_string(::getpid()) + "-" + std::to_string(counter++) + ".json");
        { std::ofstream f(path, std::ios::binary | std::ios::trunc); f << json; }
        options.config_path = path.string();
        i64 err = 0;
        try { load_configuration(options); }
        catch (const config::ConfigError& e) {
            err = e.code == "E_CONFIG_STRUCTURE" ? 1 : e.code == "E_CONFIG_PROFILE" ? 2 : e.code == "E_CONFIG_ENVIRONMENT" ? 3
                : e.code == "E_CONFIG_VALUE" ? 4 : e.code == "E_CONFIG_TYPE" ? 5 : 9;
        }
        std::filesystem::remove(path);
        if (err) { out.put(1); out.put(err); return; }
        out.put(0);
        put_opt(out, options.control_port); put_opt(out, options.transport_listen_port);
        if (options.control_token) { out.put(1); out.bytes(*options.control_token); } else out.put(0);
        put_opt(out, options.default_ttl_seconds); put_opt(out, options.min_ttl_seconds); put_opt(out, options.max_ttl_seconds);
        put_opt(out, options.announce_pow_difficulty);
        if (options.persistent_set) { out.put(1); out.put(options.persistent ? 1 : 0); } else out.put(0);
        if (options.wipe_passes_set) { out.put(1); out.put(options.wipe_passes); } else out.put(0);
        put_opt(out, options.key_rotation_seconds);
        put_opt(out, options.fetch_parallel);
    }, 60);
}
