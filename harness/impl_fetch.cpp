// "fetch" family (C24): a real Node under the harness clock.  Assigned-fetch announcements are handed to the real
// Node::schedule_assigned_fetch (friend class) with real manifests (made by a publisher node, expiry set to a whole second),
// ticks go through Node::tick, "the chunk arrived" is Node::store_chunk of that chunk id, "peer unreachable" closes the far
// end of that peer's socketpair session.  The REQUEST frames the node puts on the wire are read from the far ends, decrypted
// and decoded; the pending-fetch table and the per-peer in-flight counters are read through the friend class.
#define HV_VIRTUAL_CLOCK
#include "common.hpp"
#include <sys/socket.h>
#include <map>
#include <thread>
#include <tuple>
#include "ephemeralnet/core/Node.hpp"
#include "ephemeralnet/crypto/ChaCha20.hpp"
#include "ephemeralnet/protocol/Manifest.hpp"
#include "ephemeralnet/protocol/Message.hpp"
namespace ephemeralnet::test {
class NodeTestAccess {
public:
    static void announce(Node& n, const protocol::AnnouncePayload& p) { n.schedule_assigned_fetch(p); }
    static bool adopt(Node& n, const PeerId& peer, int fd) { return n.sessions_.adopt_outbound_socket(peer, fd, true); }
    static bool connected(Node& n, const PeerId& peer) { return n.sessions_.is_connected(peer); }
    static std::size_t counter(Node& n, const PeerId& p) {
        const auto it = n.active_peer_requests_.find(peer_id_to_string(p));
        return it == n.active_peer_requests_.end() ? 0 : it->second;
    }
    // present, attempts, in_flight, wait in ms (-1: none / never)
    static std::array<hv::i64, 4> fetch(Node& n, const ChunkId& c) {
        const auto it = n.pending_chunk_fetches_.find(chunk_id_to_string(c));
        if (it == n.pending_chunk_fetches_.end()) return {0, 0, 0, -1};
        const auto& s = it->second;
        hv::i64 wait = -1;
        if (s.next_attempt != std::chrono::steady_clock::time_point::max()) {
            const auto d = std::chrono::duration_cast<std::chrono::nanoseconds>(s.next_attempt - std::chrono::steady_clock::now()).count();
            wait = d >= 0 ? d / 1000000 : -((-d + 999999) / 1000000);   // floor, as the model's integer division
        }
        return {1, static_cast<hv::i64>(s.attempts), s.in_flight ? 1 : 0, wait};
    }
};
}
using namespace ephemeralnet;
using hv::In; using hv::Out; using hv::i64;
using TA = ephemeralnet::test::NodeTestAccess;

static PeerId pid(i64 p) { PeerId id{}; id[0] = 0x60; id[1] = static_cast<std::uint8_t>(p); id[31] = 0x24; return id; }
static ChunkId cid(i64 c) { ChunkId id{}; id[0] = static_cast<std::uint8_t>(c & 0xFF); id[1] = static_cast<std::uint8_t>((c >> 8) & 0xFF); id[31] = 0xC4; return id; }
static i64 chunk_of(const ChunkId& id) { return static_cast<i64>(id[0]) | (static_cast<i64>(id[1]) << 8); }

struct Peer { int fd = -1; std::vector<std::uint8_t> buf; };

static void drain(Node& node, i64 p, Peer& peer, std::vector<std::pair<i64, i64>>& frames) {
    if (peer.fd < 0) return;
    std::uint8_t tmp[65536];
    for (;;) { const ssize_t n = ::recv(peer.fd, tmp, sizeof tmp, MSG_DONTWAIT); if (n <= 0) break; peer.buf.insert(peer.buf.end(), tmp, tmp + n); }
    const auto key = node.session_key(pid(p));
    std::size_t off = 0;
    while (peer.buf.size() - off >= 16) {
        const std::size_t len = (static_cast<std::size_t>(peer.buf[off + 12]) << 24) | (static_cast<std::size_t>(peer.buf[off + 13]) << 16)
                              | (static_cast<std::size_t>(peer.buf[off + 14]) << 8) | peer.buf[off + 15];
        if (peer.buf.size() - off - 16 < len) break;
        crypto::Nonce nonce{}; std::copy(peer.buf.begin() + off, peer.buf.begin() + off + 12, nonce.bytes.begin());
        std::vector<std::uint8_t> ct(peer.buf.begin() + off + 16, peer.buf.begin() + off + 16 + len), pt(len);
        off += 16 + len;
        if (!key) { frames.emplace_back(p, -5); continue; }
        crypto::Key k{}; k.bytes = *key;
        crypto::ChaCha20::apply(k, nonce, ct, pt, 0u);
        const auto msg = protocol::decode_signed(pt, std::span<const std::uint8_t>(*key));
        if (!msg) { frames.emplace_back(p, -6); continue; }
        if (msg->type == protocol::MessageType::Request) frames.emplace_back(p, chunk_of(std::get<protocol::RequestPayload>(msg->payload).chunk_id));
        else frames.emplace_back(p, -7);
    }
    peer.buf.erase(peer.buf.begin(), peer.buf.begin() + static_cast<std::ptrdiff_t>(off));
}

int main() {
    return hv::main_loop([](In& in, Out& out) {
        hv::g_now_ns = 1'000'000'000'000LL;
        Config cfg{};
        cfg.identity_seed = 24u; cfg.relay_enabled = false; cfg.storage_persistent_enabled = false;
        cfg.handshake_pow_difficulty = 2;
        cfg.fetch_retry_initial_backoff = std::chrono::seconds(in.next());
        cfg.fetch_retry_max_backoff = std::chrono::seconds(in.next());
        cfg.fetch_retry_success_interval = std::chrono::seconds(in.next());
        cfg.fetch_retry_attempt_limit = static_cast<std::uint8_t>(in.next());
        cfg.fetch_max_parallel_requests = static_cast<std::uint16_t>(in.next());
        cfg.key_rotation_interval = std::chrono::seconds(3600);
        cfg.min_manifest_ttl = std::chrono::seconds(1);
        PeerId self{}; self[0] = 0x24;
        auto* node = new Node(self, cfg);            // owns live sessions with reader threads: never destroyed
        const i64 np = in.next(), nc = in.next();
        std::vector<Peer> peers(static_cast<std::size_t>(np) + 1);
        for (i64 p = 1; p <= np; ++p) {
            Config pc{}; pc.identity_seed = static_cast<std::uint32_t>(200 + p); pc.handshake_pow_difficulty = 2;
            pc.relay_enabled = false; pc.storage_persistent_enabled = false;
            Node remote(pid(p), pc);
            const auto work = remote.generate_handshake_work(self);
            if (!work || !node->perform_handshake(pid(p), remote.public_identity(), *work)) { out.put(-8); return; }
            int sv[2];
            if (::socketpair(AF_UNIX, SOCK_STREAM, 0, sv) != 0) { out.put(-9); return; }
            if (!TA::adopt(*node, pid(p), sv[0])) { out.put(-10); return; }
            peers[static_cast<std::size_t>(p)].fd = sv[1];
        }
        // one manifest per chunk, published elsewhere; expiry = start + ttl (whole seconds of the system clock)
        Config pubc{}; pubc.identity_seed = 99u; pubc.relay_enabled = false; pubc.storage_persistent_enabled = false;
        PeerId pubid{}; pubid[0] = 0x25;
        Node publisher(pubid, pubc);
        std::vector<std::string> uris(static_cast<std::size_t>(nc) + 1);
        const auto sys0 = std::chrono::system_clock::now();
        for (i64 c = 1; c <= nc; ++c) {
            const i64 ttl = in.next();
            auto m = publisher.store_chunk(cid(c), ChunkData{static_cast<std::uint8_t>(c), 9}, std::chrono::seconds(600));
            m.expires_at = std::chrono::time_point_cast<std::chrono::seconds>(sys0) + std::chrono::seconds(ttl);
            uris[static_cast<std::size_t>(c)] = protocol::encode_manifest(m);
        }
        while (!in.eof()) {
            const i64 code = in.next(), a = in.next(), b = in.next();
            if (code == 0) {
                protocol::AnnouncePayload an{};
                an.chunk_id = cid(a); an.peer_id = pid(b); an.manifest_uri = uris[static_cast<std::size_t>(a >= 1 && a <= nc ? a : 1)];
                an.assigned_shards = {1};
                TA::announce(*node, an);
            } else if (code == 1) {
                node->store_chunk(cid(a), ChunkData{7, 7, 7}, std::chrono::seconds(21600));
            } else if (code == 2) {
                auto& peer = peers[static_cast<std::size_t>(a)];
                if (peer.fd >= 0) {
                    ::close(peer.fd); peer.fd = -1;
                    // the node's reader thread sees end-of-stream and drops the session
                    for (int spin = 0; spin < 2000 && TA::connected(*node, pid(a)); ++spin) std::this_thread::sleep_for(std::chrono::milliseconds(1));
                    if (TA::connected(*node, pid(a))) { out.put(-11); return; }
                }
            } else if (code == 3) node->tick();
            else hv::g_now_ns += (a > 0 ? a : 0) * 1'000'000LL;
            std::vector<std::pair<i64, i64>> frames;
            for (i64 p = 1; p <= np; ++p) drain(*node, p, peers[static_cast<std::size_t>(p)], frames);
            std::sort(frames.begin(), frames.end());
            out.put(static_cast<i64>(frames.size()));
            for (const auto& [p, c] : frames) { out.put(p); out.put(c); }
            for (i64 c = 1; c <= nc; ++c) for (auto v : TA::fetch(*node, cid(c))) out.put(v);
            for (i64 p = 1; p <= np; ++p) out.put(static_cast<i64>(TA::counter(*node, pid(p))));
        }
        for (auto& peer : peers) if (peer.fd >= 0) ::close(peer.fd);
    }, 60);
}
