// "remote" family (C35): a real Node B with live sessions and reader threads, fed by a hostile peer A; an honest peer C keeps
// asking B for a chunk B holds (the liveness probe: "keeps serving others").  Built with AddressSanitizer + UBSan; an
// exception that escapes a session thread ends the process, which the checker sees as an abnormal exit.
//   mode 1 (transport): a publisher stores a payload (std::random_device scripted at link time, as in the "content" family, so
//     that the model can recompute key, shares and ciphertext); A sends B a signed ANNOUNCE carrying the manifest -- genuine or
//     with one corruption (hash / nonce / share byte, threshold, a repeated share index, ...) -- and then a signed CHUNK with
//     the replica bytes; B's ACK is read.  Then hostile actions: raw bytes on A's session, well-formed frames with arbitrary
//     plaintext, pre-handshake TCP connections to B's transport port with arbitrary bytes, and length-field sweeps over valid
//     messages (every offset: 32-bit words whose sum wraps around, message cut there), signed or pre-handshake; after each, C probes B.
//   mode 3 (control): the real ControlServer::Impl::handle_client over a socketpair, on the node that holds the chunk: requests
//     made of arbitrary header fields ($MANIFEST / $TAMPERED stand for the genuine / corrupted URI), or raw request bytes;
//     the CODE of the response is read, then a PING must still be answered.
#define HV_VIRTUAL_CLOCK_OFF
#include "common.hpp"
#include <arpa/inet.h>
#include <atomic>
#include <charconv>
#include <condition_variable>
#include <fstream>
#include <map>
#include <mutex>
#include <netinet/in.h>
#include <optional>
#include <random>
#include <set>
#include <sys/socket.h>
#include <thread>
#include <unordered_map>
#include <unordered_set>
namespace hvrd { std::vector<unsigned> script; std::size_t pos = 0; }
namespace std {
void random_device::_M_init(const std::string&) {}
void random_device::_M_fini() {}
random_device::result_type random_device::_M_getval() {
    return hvrd::pos < hvrd::script.size() ? hvrd::script[hvrd::pos++] : 0x9E3779B9u;
}
}
#include "ephemeralnet/Types.hpp"
namespace ephemeralnet::test {
class NodeTestAccess {
public:
    template <class N> static bool adopt(N& n, const ephemeralnet::PeerId& peer, int fd) { return n.sessions_.adopt_outbound_socket(peer, fd, true); }
    template <class N> static bool cached(N& n, const ephemeralnet::ChunkId& c) { return n.manifest_cache_.count(ephemeralnet::chunk_id_to_string(c)) != 0; }
    template <class N> static std::size_t manifests(N& n) { return n.manifest_cache_.size(); }
    template <class N, class M> static void deliver(N& n, const M& message) { n.handle_transport_message(message); }
};
}
#define private public
#include "daemon/ControlServer.cpp"
#undef private
#include "ephemeralnet/crypto/HmacSha256.hpp"
#include "ephemeralnet/network/SessionManager.hpp"
#include "ephemeralnet/protocol/Manifest.hpp"
#include "ephemeralnet/protocol/Message.hpp"
using hv::In; using hv::Out; using hv::i64;
namespace en = ephemeralnet;
namespace nw = ephemeralnet::network;
namespace dm = ephemeralnet::daemon;
namespace pr = ephemeralnet::protocol;
using TA = ephemeralnet::test::NodeTestAccess;

struct Peer {
    en::PeerId id{}; nw::SessionManager* sm = nullptr; int fd = -1; std::array<std::uint8_t, 32> key{};
    std::mutex m; std::condition_variable cv; std::vector<pr::Message> inbox;
};

static bool join(en::Node& b, const en::PeerId& bid, Peer& p, std::uint32_t seed) {
    en::Config pc{}; pc.identity_seed = seed; pc.handshake_pow_difficulty = 0; pc.relay_enabled = false; pc.storage_persistent_enabled = false;
    en::Node remote(p.id, pc);
    const auto work = remote.generate_handshake_work(bid);
    if (!work || !b.perform_handshake(p.id, remote.public_identity(), *work)) return false;
    const auto key = b.session_key(p.id);
    if (!key) return false;
    p.key = *key;
    int sv[2];
    if (::socketpair(AF_UNIX, SOCK_STREAM, 0, sv) != 0) return false;
    p.sm = new nw::SessionManager(p.id);                     // owns a reader thread: kept for the life of the process
    p.sm->register_peer_key(bid, p.key);
    p.sm->set_message_handler([&p](const nw::TransportMessage& msg) {
        const auto decoded = pr::decode_signed(msg.payload, std::span<const std::uint8_t>(p.key));
        if (!decoded) return;
        std::lock_guard<std::mutex> lock(p.m); p.inbox.push_back(*decoded); p.cv.notify_all();
    });
    if (!p.sm->adopt_outbound_socket(bid, sv[0], true)) return false;
    if (!TA::adopt(b, p.id, sv[1])) return false;
    p.fd = sv[0];
    return true;
}

static bool send_msg(Peer& p, const en::PeerId& bid, const pr::Message& m) {
    const auto bytes = pr::encode_signed(m, std::span<const std::uint8_t>(p.key));
    return p.sm->send(bid, bytes);
}

template <class Pred> static std::optional<pr::Message> wait_for(Peer& p, int ms, Pred pred) {
    std::unique_lock<std::mutex> lock(p.m);
    std::optional<pr::Message> found;
    p.cv.wait_for(lock, std::chrono::milliseconds(ms), [&] {
        for (auto it = p.inbox.begin(); it != p.inbox.end(); ++it) if (pred(*it)) { found = *it; p.inbox.erase(it); return true; }
        return false;
    });
    return found;
}

// the honest peer asks for the chunk B holds and gets it
static bool probe(en::Node& /*b*/, const en::PeerId& bid, Peer& c, const en::ChunkId& held) {
    pr::Message req{}; req.version = pr::kCurrentMessageVersion; req.type = pr::MessageType::Request;
    pr::RequestPayload rp{}; rp.chunk_id = held; rp.requester = c.id; req.payload = rp;
    if (!send_msg(c, bid, req)) return false;
    const auto reply = wait_for(c, 20000, [&](const pr::Message& m) { return m.type == pr::MessageType::Chunk; });
    if (!reply) return false;
    pr::Message ack{}; ack.version = pr::kCurrentMessageVersion; ack.type = pr::MessageType::Acknowledge;
    pr::AcknowledgePayload ap{}; ap.chunk_id = held; ap.peer_id = c.id; ap.accepted = true; ack.payload = ap;
    send_msg(c, bid, ack);
    return true;
}

static i64 code_of(const std::string& response) {
    static const char* codes[] = {"OK_FETCH", "ERR_FETCH_MANIFEST_REQUIRED", "ERR_FETCH_MANIFEST_INVALID", "ERR_FETCH_OUT_REQUIRED",
                                  "ERR_FETCH_MANIFEST_REGISTRATION", "ERR_FETCH_CHUNK_MISSING", "ERR_FETCH_WRITE_FAILED", "ERR_FETCH_OUT_INVALID"};
    const auto at = response.find("CODE:");
    if (at == std::string::npos) return response.empty() ? -2 : -3;
    const auto end = response.find('\n', at);
    const auto code = response.substr(at + 5, end == std::string::npos ? std::string::npos : end - at - 5);
    for (i64 k = 0; k < 8; ++k) if (code == codes[k]) return k;
    if (code == "OK_PING") return 50;
    return code.rfind("ERR_", 0) == 0 ? 60 : 61;
}

void hv_install_daemon_signal_handlers();

int main() {
    static int counter = 0;
    hv_install_daemon_signal_handlers();        // what `eph serve` installs before it starts its transport (src/main.cpp)
    return hv::main_loop([](In& in, Out& out) {
        const i64 mode = in.next();
        const en::ChunkId cid = in.id32();
        const i64 t = in.next(), n = in.next();
        const auto data = in.bytes();
        const auto key = in.id32();
        for (int i = 0; i < 12; ++i) in.next();
        const auto rnd = in.bytes();
        const i64 kind = in.next(), pos = in.next(), val = in.next();
        const auto seed = static_cast<unsigned>(in.next());
        en::Config ca{}; ca.identity_seed = 35u; ca.relay_enabled = false; ca.storage_persistent_enabled = false;
        ca.shard_threshold = static_cast<std::uint8_t>(t); ca.shard_total = static_cast<std::uint8_t>(n);
        ca.handshake_pow_difficulty = 0; ca.announce_pow_difficulty = 0; ca.advertise_auto_mode = en::Config::AdvertiseAutoMode::Off;
        en::PeerId pubid{}; pubid[0] = 0x35; pubid[31] = 1;
        auto* publisher = new en::Node(pubid, ca);          // nodes own threads once they have sessions: never destroyed
        hvrd::script.clear(); hvrd::pos = 0;
        for (std::size_t i = 0; i < key.size(); ++i) hvrd::script.push_back(key[i] | static_cast<unsigned>((i * 2654435761u) & 0xFFFFFF00u));
        hvrd::script.push_back(seed);
        for (std::size_t i = 0; i < rnd.size(); ++i) hvrd::script.push_back(rnd[i] | static_cast<unsigned>(((i + 7) * 40503u) << 8));
        pr::Manifest m{};
        if (!hv::guarded(out, [&] { m = publisher->store_chunk(cid, data, std::chrono::seconds(600)); })) return;
        hvrd::script.clear();
        const auto rec = publisher->export_chunk_record(cid);
        if (!rec) { out.put(-20); return; }
        auto mt = m; auto ct = rec->data;
        auto flip = [&](auto& bytes, i64 p, i64 v) { if (p >= 0 && static_cast<std::size_t>(p) < bytes.size()) bytes[static_cast<std::size_t>(p)] ^= static_cast<std::uint8_t>(v); };
        if (kind == 1) flip(ct, pos, val);
        else if (kind == 2) flip(mt.chunk_hash, pos, val);
        else if (kind == 3) flip(mt.nonce.bytes, pos, val);
        else if (kind == 4) { const auto k = static_cast<std::size_t>(pos / 32); if (k < mt.shards.size()) flip(mt.shards[k].value, pos % 32, val); }
        else if (kind == 5) mt.threshold = static_cast<std::uint8_t>(val);
        else if (kind == 6) { if (static_cast<std::size_t>(pos) < mt.shards.size() && static_cast<std::size_t>(val) < mt.shards.size()) mt.shards[static_cast<std::size_t>(pos)].index = mt.shards[static_cast<std::size_t>(val)].index; }
        else if (kind == 7) ct.resize(std::min<std::size_t>(ct.size(), static_cast<std::size_t>(pos)));
        else if (kind == 8) ct.insert(ct.end(), static_cast<std::size_t>(val), std::uint8_t{90});
        const auto genuine_uri = pr::encode_manifest(m);
        const auto tampered_uri = pr::encode_manifest(mt);

        if (mode == 1) {
            en::Config cb = ca; cb.identity_seed = 36u; cb.announce_burst_limit = 1000;
            en::PeerId bid{}; bid[0] = 0x36; bid[31] = 2;
            auto* B = new en::Node(bid, cb);
            // B holds another chunk: what the honest peer asks for
            en::ChunkId held{}; held[0] = 0x77; held[31] = 0x35;
            B->store_chunk(held, en::ChunkData{9, 8, 7, 6}, std::chrono::seconds(600));
            B->start_transport(0);
            auto* A = new Peer(); A->id[0] = 0xA1; A->id[31] = 3;
            auto* C = new Peer(); C->id[0] = 0xC1; C->id[31] = 4;
            if (!join(*B, bid, *A, 41u) || !join(*B, bid, *C, 42u)) { out.put(-21); return; }
            out.put(probe(*B, bid, *C, held) ? 1 : 0);
            // the hostile ANNOUNCE, then the CHUNK
            pr::Message an{}; an.version = pr::kCurrentMessageVersion; an.type = pr::MessageType::Announce;
            pr::AnnouncePayload ap{}; ap.chunk_id = cid; ap.peer_id = A->id; ap.ttl = std::chrono::seconds(300); ap.manifest_uri = tampered_uri;
            an.payload = ap;
            send_msg(*A, bid, an);
            // an ANNOUNCE is not answered: the probe that follows is handled after it on B's side only per session, so wait on B's state
            for (int spin = 0; spin < 300 && !TA::cached(*B, cid); ++spin) std::this_thread::sleep_for(std::chrono::milliseconds(1));
            out.put(TA::cached(*B, cid) ? 1 : 0);
            out.put(probe(*B, bid, *C, held) ? 1 : 0);
            pr::Message ch{}; ch.version = pr::kCurrentMessageVersion; ch.type = pr::MessageType::Chunk;
            pr::ChunkPayload cp{}; cp.chunk_id = cid; cp.data = ct; cp.ttl = std::chrono::seconds(300); ch.payload = cp;
            send_msg(*A, bid, ch);
            const auto ack = wait_for(*A, 20000, [&](const pr::Message& x) { return x.type == pr::MessageType::Acknowledge; });
            out.put(ack ? (std::get<pr::AcknowledgePayload>(ack->payload).accepted ? 1 : 0) : -1);
            out.put(probe(*B, bid, *C, held) ? 1 : 0);
            const i64 nf = in.next();
            for (i64 f = 0; f < nf; ++f) {
                const i64 acode = in.next(); const auto bytes = in.bytes();
                if (acode == 0) { if (A->fd >= 0) (void)!::send(A->fd, bytes.data(), bytes.size(), MSG_NOSIGNAL | MSG_DONTWAIT); }
                else if (acode == 1) A->sm->send(bid, bytes);
                else if (acode == 5) {
                    // a peer with a session asks for the held chunk and hangs up before the answer: B writes into a closed connection
                    auto* D = new Peer(); D->id[0] = 0xD1; D->id[1] = static_cast<std::uint8_t>(f); D->id[31] = 5;
                    if (join(*B, bid, *D, 43u + static_cast<std::uint32_t>(f))) {
                        pr::Message req{}; req.version = pr::kCurrentMessageVersion; req.type = pr::MessageType::Request;
                        pr::RequestPayload rp{}; rp.chunk_id = held; rp.requester = D->id; req.payload = rp;
                        send_msg(*D, bid, req);
                        ::shutdown(D->fd, SHUT_RDWR);
                        std::this_thread::sleep_for(std::chrono::milliseconds(30));
                    }
                }
                else if (acode == 6) {
                    // a well-formed, correctly signed ANNOUNCE that assigns this node a shard and whose endpoint text is `bytes`
                    // (ports that overflow every integer type, signs, blanks, no port at all).  The announcer has shaken hands
                    // but holds no transport session at that moment (it reached the node through another connection), so the
                    // node has to parse the text to call back.  Delivered to the handler the receive loop calls; then a tick.
                    en::PeerId pid{}; pid[0] = 0xE1; pid[1] = static_cast<std::uint8_t>(f); pid[31] = 6;
                    en::Config pc6{}; pc6.identity_seed = 60u + static_cast<std::uint32_t>(f); pc6.handshake_pow_difficulty = 0; pc6.relay_enabled = false; pc6.storage_persistent_enabled = false;
                    en::Node phantom(pid, pc6);
                    const auto work = phantom.generate_handshake_work(bid);
                    if (work && B->perform_handshake(pid, phantom.public_identity(), *work)) {
                        const auto k6 = B->session_key(pid);
                        if (k6) {
                            pr::Message an6{}; an6.version = pr::kCurrentMessageVersion; an6.type = pr::MessageType::Announce;
                            pr::AnnouncePayload x{}; x.chunk_id = cid; x.chunk_id[5] = static_cast<std::uint8_t>(0x60 + f); x.peer_id = pid; x.ttl = std::chrono::seconds(60);
                            auto m6 = m; m6.chunk_id = x.chunk_id;
                            x.manifest_uri = pr::encode_manifest(m6); x.endpoint = std::string(bytes.begin(), bytes.end()); x.assigned_shards = {1};
                            an6.payload = x;
                            nw::TransportMessage tm6{}; tm6.peer_id = pid; tm6.endpoint = "127.0.0.1:1";
                            tm6.payload = pr::encode_signed(an6, std::span<const std::uint8_t>(k6->data(), k6->size()));
                            hv::guarded(out, [&] { TA::deliver(*B, tm6); });
                            hv::guarded(out, [&] { B->tick(); });
                        }
                    }
                }
                else if (acode == 3 || acode == 4) {
                    // length-field sweep over a valid message: at every offset of its encoding, 1..3 consecutive 32-bit words are
                    // replaced by values whose sum wraps around to the size of what follows, and the message is cut there; each
                    // variant is signed and sent over A's session (3) or sent unsigned where the transport handshake is expected (4)
                    const i64 which = bytes.size() > 0 ? bytes[0] % 3 : 0, words = bytes.size() > 1 ? 1 + bytes[1] % 3 : 3, tail = bytes.size() > 2 ? bytes[2] % 8 : 0;
                    pr::Message base{}; base.version = pr::kCurrentMessageVersion;
                    if (which == 0) { base.type = pr::MessageType::Announce; pr::AnnouncePayload x{}; x.chunk_id = cid; x.peer_id = A->id; x.ttl = std::chrono::seconds(60); x.manifest_uri = genuine_uri; x.endpoint = "203.0.113.9:4000"; x.assigned_shards = {1}; base.payload = x; }
                    else if (which == 1) { base.type = pr::MessageType::Chunk; pr::ChunkPayload x{}; x.chunk_id = cid; x.data = ct; x.ttl = std::chrono::seconds(60); base.payload = x; }
                    else { base.type = pr::MessageType::Request; pr::RequestPayload x{}; x.chunk_id = cid; x.requester = A->id; base.payload = x; }
                    const auto enc = pr::encode(base);
                    const std::size_t limit = std::min<std::size_t>(enc.size(), 160);
                    const bool in_place = bytes.size() > 3 ? (bytes[3] % 2 == 0) : true;      // keep what follows the words, or cut there
                    for (std::size_t off = 2; off + 4 * static_cast<std::size_t>(words) <= limit; ++off) {
                        std::vector<std::uint8_t> body(enc.begin(), enc.begin() + static_cast<std::ptrdiff_t>(off));
                        // words: 0xFFFFFFFF, then values that bring the sum (mod 2^32) to `tail`
                        std::vector<std::uint32_t> vals(static_cast<std::size_t>(words), 0u);
                        vals[0] = 0xFFFFFFFFu;
                        if (words >= 2) vals[1] = static_cast<std::uint32_t>(tail) + 1u; else vals[0] = 0xFFFFFFFFu;
                        for (auto v : vals) { body.push_back(static_cast<std::uint8_t>(v >> 24)); body.push_back(static_cast<std::uint8_t>(v >> 16)); body.push_back(static_cast<std::uint8_t>(v >> 8)); body.push_back(static_cast<std::uint8_t>(v)); }
                        if (in_place) body.insert(body.end(), enc.begin() + static_cast<std::ptrdiff_t>(off + 4 * static_cast<std::size_t>(words)), enc.end());
                        else for (i64 k = 0; k < tail; ++k) body.push_back(static_cast<std::uint8_t>(0x41 + k));
                        if (acode == 3) {
                            const auto mac = en::crypto::HmacSha256::compute(std::span<const std::uint8_t>(A->key), body);
                            auto frame = body; frame.insert(frame.end(), mac.begin(), mac.end());
                            A->sm->send(bid, frame);
                        } else if (off % 4 == 2) {
                            const int fd = ::socket(AF_INET, SOCK_STREAM, 0);
                            sockaddr_in a{}; a.sin_family = AF_INET; a.sin_addr.s_addr = htonl(INADDR_LOOPBACK); a.sin_port = htons(B->transport_port());
                            if (::connect(fd, reinterpret_cast<sockaddr*>(&a), sizeof a) == 0) {
                                std::vector<std::uint8_t> pre(32, 0x42);
                                const auto len = static_cast<std::uint32_t>(body.size());
                                pre.push_back(static_cast<std::uint8_t>(len >> 24)); pre.push_back(static_cast<std::uint8_t>(len >> 16)); pre.push_back(static_cast<std::uint8_t>(len >> 8)); pre.push_back(static_cast<std::uint8_t>(len));
                                pre.insert(pre.end(), body.begin(), body.end());
                                (void)!::send(fd, pre.data(), pre.size(), MSG_NOSIGNAL);
                                char byte; timeval tv{0, 20000}; ::setsockopt(fd, SOL_SOCKET, SO_RCVTIMEO, &tv, sizeof tv); (void)!::recv(fd, &byte, 1, 0);
                            }
                            ::close(fd);
                        }
                    }
                }
                else {
                    const int fd = ::socket(AF_INET, SOCK_STREAM, 0);
                    sockaddr_in a{}; a.sin_family = AF_INET; a.sin_addr.s_addr = htonl(INADDR_LOOPBACK); a.sin_port = htons(B->transport_port());
                    if (::connect(fd, reinterpret_cast<sockaddr*>(&a), sizeof a) == 0) {
                        (void)!::send(fd, bytes.data(), bytes.size(), MSG_NOSIGNAL);
                        std::this_thread::sleep_for(std::chrono::milliseconds(20));
                    }
                    ::close(fd);
                }
                std::this_thread::sleep_for(std::chrono::milliseconds(15));
                out.put(probe(*B, bid, *C, held) ? 1 : 0);
            }
            B->stop_transport();
            return;
        }
        // mode 3: the control plane of the node that holds the chunk
        std::mutex node_mutex;
        dm::ControlServer::Impl impl(*publisher, node_mutex, {});
        auto hang_up = [&](const std::string& request) {
            // the client sends its request and closes the connection before the daemon answers
            int sv[2]; ::socketpair(AF_UNIX, SOCK_STREAM, 0, sv);
            (void)!::send(sv[1], request.data(), request.size(), MSG_NOSIGNAL);
            ::close(sv[1]);
            bool threw = false;
            try { impl.handle_client(sv[0], "harness"); } catch (...) { threw = true; }
            ::close(sv[0]);
            return threw;
        };
        auto exchange = [&](const std::string& request) {
            int sv[2]; ::socketpair(AF_UNIX, SOCK_STREAM, 0, sv);
            std::string response;
            std::thread w([&] { std::size_t off = 0; while (off < request.size()) { const ssize_t k = ::send(sv[1], request.data() + off, request.size() - off, MSG_NOSIGNAL); if (k <= 0) break; off += static_cast<std::size_t>(k); } ::shutdown(sv[1], SHUT_WR); });
            std::thread r([&] { char buf[65536]; ssize_t k; while ((k = ::recv(sv[1], buf, sizeof buf, 0)) > 0) response.append(buf, static_cast<std::size_t>(k)); });
            bool threw = false;
            try { impl.handle_client(sv[0], "harness"); } catch (...) { threw = true; }
            ::shutdown(sv[0], SHUT_RDWR); w.join(); r.join(); ::close(sv[0]); ::close(sv[1]);
            return std::make_pair(threw, response);
        };
        const auto outdir = std::filesystem::temp_directory_path() / ("verif-c35-" + std::to_string(::getpid()) + "-" + std::to_string(counter++));
        std::filesystem::create_directories(outdir);
        const i64 nr = in.next();
        for (i64 q = 0; q < nr; ++q) {
            const i64 rkind = in.next();
            std::string request;
            if (rkind == 0) request = in.str();                       // raw request bytes
            else if (rkind == 2) {
                const i64 st = in.next();
                request = "COMMAND:FETCH\nMANIFEST:" + genuine_uri + "\n" + (st ? "STREAM:client\n" : "OUT:" + (outdir / ("h" + std::to_string(q))).string() + "\n") + "\n";
                const bool threw = hang_up(request);
                out.put(threw ? 1 : 0); out.put(-9);
                const auto [threw2, pong] = exchange("COMMAND:PING\n\n");
                out.put(!threw2 && code_of(pong) == 50 ? 1 : 0);
                continue;
            }
            else {
                // a FETCH described by kinds: MANIFEST absent / genuine / corrupted / undecodable, OUT absent / empty / a file / a path below a
                // regular file, STREAM off / on
                const i64 mk = in.next(), ok = in.next(), st = in.next();
                request = "COMMAND:FETCH\n";
                if (mk == 1) request += "MANIFEST:" + genuine_uri + "\n";
                else if (mk == 2) request += "MANIFEST:" + tampered_uri + "\n";
                else if (mk == 3) request += "MANIFEST:eph://!!!not-a-manifest\n";
                if (ok == 1) request += "OUT:\n";
                else if (ok == 2) request += "OUT:" + (outdir / ("f" + std::to_string(q))).string() + "\n";
                else if (ok == 3) { { std::ofstream blocker(outdir / "blocker"); blocker << "x"; } request += "OUT:" + (outdir / "blocker" / "f").string() + "\n"; }   // below a regular file
                if (st != 0) request += "STREAM:client\n";
                request += "\n";
            }
            const auto [threw, response] = exchange(request);
            out.put(threw ? 1 : 0);
            out.put(rkind == 0 ? -9 : code_of(response));
            const auto [threw2, pong] = exchange("COMMAND:PING\n\n");
            out.put(!threw2 && code_of(pong) == 50 ? 1 : 0);
        }
        std::error_code ec; std::filesystem::remove_all(outdir, ec);
    }, 120);
}
