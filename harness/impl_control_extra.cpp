// second translation unit of the "control" family: the control CLIENT's response reader (anonymous namespace of
// ControlClient.cpp) made callable from impl_control.cpp.
#include <algorithm>
#include <charconv>
#include <optional>
#include <string>
#include <vector>
#include "daemon/ControlClient.cpp"

ephemeralnet::daemon::ControlResponse hv_client_parse(int fd) {
    return ephemeralnet::daemon::parse_response(fd, nullptr);
}
