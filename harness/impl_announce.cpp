// "announce" family (C21): the real Node::handle_announce (through the friend class) with real payloads -- manifests
// issued by a second real Node, real PoW -- each built so that exactly one of the admission checks fails, under the
// harness clock.  Observed through the friend class: was the manifest cached (state changed), the sizes of the per-peer
// throttle and failure histories, the lock-out deadline.
#define HV_VIRTUAL_CLOCK
#include "common.hpp"
#include <sys/socket.h>
#include "ephemeralnet/protocol/Manifest.hpp"
namespace ephemeralnet { class Node; }
namespace ephemeralnet::test {
class NodeTestAccess;
}
#include "core/Node.cpp"     // for announce_pow_valid (anonymous namespace)
namespace ephemeralnet::test {
class NodeTestAccess {
public:
    static void announce(Node& n, const protocol::AnnouncePayload& p, const PeerId& s, std::uint8_t v) { n.handle_announce(p, s, v); }
    static bool pow(Node& n, protocol::AnnouncePayload& p) { return n.apply_announce_pow(p); }
    static bool cached(Node& n, const ChunkId& c) { return n.manifest_cache_.count(chunk_id_to_string(c)) != 0; }
    static long long hist(Node& n, const PeerId& p) { auto it = n.peer_announce_history_.find(peer_id_to_string(p)); return it == n.peer_announce_history_.end() ? 0 : static_cast<long long>(it->second.size()); }
    static long long fails(Node& n, const PeerId& p) { auto it = n.peer_announce_failure_history_.find(peer_id_to_string(p)); return it == n.peer_announce_failure_history_.end() ? 0 : static_cast<long long>(it->second.size()); }
    static long long lock(Node& n, const PeerId& p) {
        auto it = n.peer_announce_lockouts_.find(peer_id_to_string(p));
        return it == n.peer_announce_lockouts_.end() ? -1 : std::chrono::duration_cast<std::chrono::seconds>(it->second.time_since_epoch()).count();
    }
};
}
using namespace ephemeralnet;
using hv::In; using hv::Out; using hv::i64;
using TA = ephemeralnet::test::NodeTestAccess;

int main() {
    return hv::main_loop([](In& in, Out& out) {
        hv::g_now_ns = 1'000'000'000'000LL;
        const i64 mi = in.next(), bl = in.next(), bw = in.next(), d = in.next();
        Config rc{};
        rc.announce_min_interval = std::chrono::seconds(mi);
        rc.announce_burst_limit = static_cast<std::size_t>(bl);
        rc.announce_burst_window = std::chrono::seconds(bw);
        rc.announce_pow_difficulty = static_cast<std::uint8_t>(d);
        rc.identity_seed = 21u; rc.relay_enabled = false; rc.storage_persistent_enabled = false;
        Config pc{}; pc.identity_seed = 22u; pc.relay_enabled = false; pc.storage_persistent_enabled = false;
        pc.shard_threshold = 2; pc.shard_total = 3; pc.announce_pow_difficulty = 0;
        PeerId rid{}; rid[0] = 0xA1; PeerId pid{}; pid[0] = 0xB2;
        auto* receiver = new Node(rid, rc);     // kept alive: see impl_chunkstore.cpp
        auto* publisher = new Node(pid, pc);
        std::vector<i64> ev;
        while (!in.eof()) ev.push_back(in.next());
        for (std::size_t i = 0; i + 3 < ev.size() + 0 && i + 4 <= ev.size(); i += 4) {
            const i64 dt = ev[i], s = ev[i + 1], kind = ev[i + 2], ver = ev[i + 3];
            hv::g_now_ns += (dt > 0 ? dt : 0) * 1'000'000'000LL;
            PeerId sender{}; sender[0] = 0x50; sender[1] = static_cast<std::uint8_t>(s);
            ChunkId chunk{}; chunk[0] = 0xC0; chunk[1] = static_cast<std::uint8_t>(i / 4); chunk[2] = static_cast<std::uint8_t>((i / 4) >> 8);
            auto manifest = publisher->store_chunk(chunk, ChunkData{1, 2, 3, static_cast<std::uint8_t>(i)}, std::chrono::seconds(3600));
            if (kind == 7) { manifest.shards.resize(1); }                                        // fewer shards than the threshold
            if (kind == 8) { manifest.expires_at = std::chrono::system_clock::now() - std::chrono::seconds(10); }
            protocol::AnnouncePayload p{};
            p.chunk_id = chunk; p.peer_id = sender; p.endpoint = "203.0.113.5:4000";
            p.ttl = std::chrono::seconds(600);
            p.manifest_uri = protocol::encode_manifest(manifest);
            if (kind == 1) { p.peer_id[5] ^= 0x01; }
            if (kind == 2) { p.manifest_uri.clear(); }
            if (kind == 5) { p.manifest_uri = "eph://%%%not-base64%%%"; }
            if (kind == 6) { p.chunk_id[7] ^= 0x40; }
            if (kind == 9) { p.assigned_shards = {manifest.shards.empty() ? std::uint8_t{9} : manifest.shards[0].index, 250}; }
            else if (i % 8 == 0 && !manifest.shards.empty()) { p.assigned_shards = {manifest.shards[0].index}; }
            TA::pow(*receiver, p);
            if (kind == 3 && d > 0) {
                // a nonce whose digest has exactly d-1 leading zero bits (one bit short), counted HERE and not by the node's
                // own validator, so that a validator that is too lenient cannot vouch for itself
                auto zero_bits = [](const std::array<std::uint8_t, 32>& dg) {
                    int n = 0;
                    for (auto b : dg) { if (b == 0) { n += 8; continue; } for (int k = 7; k >= 0 && !((b >> k) & 1); --k) ++n; break; }
                    return n;
                };
                for (int tries = 0; tries < 200000; ++tries) {
                    p.work_nonce += 1;
                    if (zero_bits(ephemeralnet::announce_pow_digest(p)) == static_cast<int>(d) - 1) break;
                }
            }
            const ChunkId observed = (kind == 6) ? manifest.chunk_id : p.chunk_id;
            TA::announce(*receiver, p, sender, static_cast<std::uint8_t>(ver));
            out.put(TA::cached(*receiver, observed) || TA::cached(*receiver, p.chunk_id) ? 1 : 0);
            out.put(TA::hist(*receiver, sender)); out.put(TA::fails(*receiver, sender)); out.put(TA::lock(*receiver, sender));
        }
    }, 120);
}
