// "transport" family (C14): two real SessionManagers joined by an AF_UNIX socketpair that both adopt as a live session with
// the same session key.  Mode 1: A sends payloads with SessionManager::send (std::random_device replaced at link time, so
// the frame nonces are the scripted ones the model receives); B's message handler records what arrives.  Mode 2: the harness
// itself writes an arbitrary byte stream to B and closes it.  Observed: was each send accepted; the messages B's handler got
// (in order: length, checksum, first bytes) and how B's session ended.
#include "common.hpp"
#include <atomic>
#include <condition_variable>
#include <mutex>
#include <random>
#include <sys/socket.h>
#include <thread>
namespace hvrd { std::vector<unsigned> script; std::size_t pos = 0; }
namespace std {
void random_device::_M_init(const std::string&) {}
void random_device::_M_fini() {}
random_device::result_type random_device::_M_getval() {
    return hvrd::pos < hvrd::script.size() ? hvrd::script[hvrd::pos++] : 0x51u;
}
}
#include "ephemeralnet/network/SessionManager.hpp"
using hv::In; using hv::Out; using hv::i64;
namespace en = ephemeralnet;
namespace nw = ephemeralnet::network;

static std::vector<std::uint8_t> pattern(i64 len, i64 seed) {
    std::vector<std::uint8_t> v(static_cast<std::size_t>(len > 0 ? len : 0));
    for (i64 i = 0; i < static_cast<i64>(v.size()); ++i) v[static_cast<std::size_t>(i)] = static_cast<std::uint8_t>((seed + 7 * i + i / 256) % 256);
    return v;
}
static i64 checksum(const std::vector<std::uint8_t>& v) { i64 a = 0; for (auto b : v) a = (a * 31 + b + 1) % 1000000007LL; return a; }

struct Sink {
    std::mutex m; std::condition_variable cv; std::vector<std::vector<std::uint8_t>> got;
};

int main() {
    return hv::main_loop([](In& in, Out& out) {
        const i64 mode = in.next();
        const auto key = in.id32();
        en::PeerId ida{}; ida[0] = 0x14; en::PeerId idb{}; idb[0] = 0x15;
        // the managers own reader threads: they are kept for the life of the process
        auto* A = new nw::SessionManager(ida); auto* B = new nw::SessionManager(idb);
        auto* sink = new Sink();
        B->set_message_handler([sink](const nw::TransportMessage& msg) {
            std::lock_guard<std::mutex> lock(sink->m); sink->got.push_back(msg.payload); sink->cv.notify_all();
        });
        A->register_peer_key(idb, key); B->register_peer_key(ida, key);
        int sv[2];
        if (::socketpair(AF_UNIX, SOCK_STREAM, 0, sv) != 0) { out.put(-9); return; }
        if (!B->adopt_outbound_socket(ida, sv[1], true)) { out.put(-10); return; }
        std::size_t expected = 0;
        if (mode == 3) {
            // one send over a second socketpair whose far end the harness reads itself: the frame as it is on the wire
            int raw[2];
            if (::socketpair(AF_UNIX, SOCK_STREAM, 0, raw) != 0) { out.put(-9); return; }
            en::PeerId idc{}; idc[0] = 0x16;
            A->register_peer_key(idc, key);
            if (!A->adopt_outbound_socket(idc, raw[0], true)) { out.put(-10); return; }
            const i64 len = in.next(), seed = in.next();
            hvrd::script.clear(); hvrd::pos = 0;
            for (int k = 0; k < 12; ++k) hvrd::script.push_back(static_cast<unsigned>(in.next() & 0xFF) | (static_cast<unsigned>(k * 40503u) << 8));
            const auto payload = pattern(len, seed);
            const bool ok = A->send(idc, payload);
            out.put(ok ? 1 : 0);
            if (ok) {
                std::vector<std::uint8_t> wire(12 + 4 + payload.size());
                std::size_t off = 0;
                while (off < wire.size()) { const ssize_t k = ::recv(raw[1], wire.data() + off, wire.size() - off, 0); if (k <= 0) break; off += static_cast<std::size_t>(k); }
                wire.resize(off);
                std::uint8_t extra; if (::recv(raw[1], &extra, 1, MSG_DONTWAIT) > 0) wire.push_back(extra);   // nothing more may follow
                out.bytes(wire);
            }
            ::close(raw[1]); ::close(sv[0]);
            return;
        }
        if (mode == 4) {
            // n messages sent by four threads at the same time (each thread takes every fourth message)
            if (!A->adopt_outbound_socket(idb, sv[0], true)) { out.put(-10); return; }
            const i64 n = in.next();
            std::vector<std::vector<std::uint8_t>> payloads;
            for (i64 i = 0; i < n; ++i) {
                const i64 len = in.next(), seed = in.next();
                for (int k = 0; k < 13; ++k) in.next();      // nonce and rekey flag: unused here (nonces come from the constant device)
                payloads.push_back(pattern(len, seed));
            }
            hvrd::script.clear(); hvrd::pos = 0;
            std::atomic<std::size_t> accepted{0};
            std::atomic<int> ready{0};
            std::vector<std::thread> threads;
            for (int t = 0; t < 4; ++t) threads.emplace_back([&, t] {
                ++ready; while (ready.load() < 4) { }
                for (std::size_t i = static_cast<std::size_t>(t); i < payloads.size(); i += 4) if (A->send(idb, payloads[i])) ++accepted;
            });
            for (auto& th : threads) th.join();
            { std::unique_lock<std::mutex> lock(sink->m); sink->cv.wait_for(lock, std::chrono::seconds(10), [&] { return sink->got.size() >= accepted.load(); }); }
            ::shutdown(sv[0], SHUT_RDWR);
            for (int spin = 0; spin < 5000 && B->is_connected(ida); ++spin) std::this_thread::sleep_for(std::chrono::milliseconds(1));
            std::lock_guard<std::mutex> lock(sink->m);
            std::vector<std::pair<i64, i64>> items;
            for (const auto& m : sink->got) items.emplace_back(static_cast<i64>(m.size()), checksum(m));
            std::sort(items.begin(), items.end());
            out.put(static_cast<i64>(items.size()));
            for (const auto& [l2, c2] : items) { out.put(l2); out.put(c2); }
            return;
        }
        if (mode == 1) {
            if (!A->adopt_outbound_socket(idb, sv[0], true)) { out.put(-10); return; }
            const i64 n = in.next();
            // a writer thread: a 1 MiB frame does not fit the socket buffer, B drains concurrently
            std::vector<i64> sent;
            for (i64 i = 0; i < n; ++i) {
                const i64 len = in.next(), seed = in.next();
                hvrd::script.clear(); hvrd::pos = 0;
                for (int k = 0; k < 12; ++k) hvrd::script.push_back(static_cast<unsigned>(in.next() & 0xFF) | (static_cast<unsigned>(k * 2654435761u) & 0xFFFFFF00u));
                if (in.next() != 0) {
                    // both ends register a new key for the live session; everything sent so far has been delivered first
                    const auto nk = in.id32();
                    { std::unique_lock<std::mutex> lock(sink->m); sink->cv.wait_for(lock, std::chrono::seconds(10), [&] { return sink->got.size() >= expected; }); }
                    A->register_peer_key(idb, nk); B->register_peer_key(ida, nk);
                }
                const auto payload = pattern(len, seed);
                const bool ok = A->send(idb, payload);
                sent.push_back(ok ? 1 : 0);
                if (ok) ++expected;
            }
            for (auto s : sent) out.put(s);
            {   // wait until B's handler has seen every accepted message (or 10 s)
                std::unique_lock<std::mutex> lock(sink->m);
                sink->cv.wait_for(lock, std::chrono::seconds(10), [&] { return sink->got.size() >= expected; });
            }
            ::shutdown(sv[0], SHUT_RDWR);       // end of the stream between frames
        } else {
            const auto stream = in.bytes();
            std::thread w([&] { std::size_t off = 0; while (off < stream.size()) { const ssize_t k = ::send(sv[0], stream.data() + off, stream.size() - off, MSG_NOSIGNAL); if (k <= 0) break; off += static_cast<std::size_t>(k); } ::shutdown(sv[0], SHUT_WR); });
            w.join();
        }
        // B's loop ends when the stream ends or when it refuses a frame
        for (int spin = 0; spin < 5000 && B->is_connected(ida); ++spin) std::this_thread::sleep_for(std::chrono::milliseconds(1));
        if (B->is_connected(ida)) { out.put(-11); return; }
        std::lock_guard<std::mutex> lock(sink->m);
        out.put(static_cast<i64>(sink->got.size()));
        for (const auto& m : sink->got) {
            out.put(static_cast<i64>(m.size())); out.put(checksum(m));
            for (std::size_t i = 0; i < m.size() && i < 16; ++i) out.put(m[i]);
        }
        if (mode != 1) ::close(sv[0]);
    }, 120);
}
