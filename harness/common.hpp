// Shared scaffolding for the implementation side of the correspondence checks.
// Protocol (same as ocaml/driver.ml): one case per stdin line = space separated decimal integers;
// one stdout line per case = integers.  Byte strings travel as <len> b0 b1 ...
//
// Optional features, selected by defining before inclusion:
//   HV_VIRTUAL_CLOCK  - replace std::chrono::steady_clock/system_clock::now() for the whole
//                       executable by a clock the harness advances (hv::g_now_ns).
#pragma once
#include <algorithm>
#include <array>
#include <chrono>
#include <csignal>
#include <cstdint>
#include <cstdio>
#include <cstdlib>
#include <cstring>
#include <exception>
#include <functional>
#include <iostream>
#include <new>
#include <span>
#include <sstream>
#include <stdexcept>
#include <string>
#include <system_error>
#include <filesystem>
#include <unistd.h>
#include <vector>

namespace hv {
using i64 = long long;

#ifdef HV_VIRTUAL_CLOCK
// nanoseconds; both clocks move in lock-step.  system = steady + g_sys_offset_ns.
inline i64 g_now_ns = 1'000'000'000'000LL;          // start well away from 0
inline i64 g_sys_offset_ns = 1'700'000'000LL * 1'000'000'000LL;
#endif

// Exception classes reported to the checker (first int of an output line is kThrow, then the class)
constexpr i64 kThrow = -1000;
enum ExnClass : i64 { InvalidArgument = 1, LengthError = 2, OutOfRange = 3, BadAlloc = 4,
                      RuntimeError = 5, OtherStd = 6, Unknown = 7, FilesystemError = 8, LogicError = 9 };

struct In {
    std::vector<i64> v;
    std::size_t p = 0;
    bool eof() const { return p >= v.size(); }
    i64 next() { if (p >= v.size()) { return 0; } return v[p++]; }
    std::vector<std::uint8_t> bytes() {
        i64 n = next();
        std::vector<std::uint8_t> out;
        if (n < 0) n = 0;
        out.reserve(static_cast<std::size_t>(n));
        for (i64 i = 0; i < n; ++i) out.push_back(static_cast<std::uint8_t>(next() & 0xFF));
        return out;
    }
    std::string str() { auto b = bytes(); return std::string(b.begin(), b.end()); }
    std::array<std::uint8_t, 32> id32() {
        std::array<std::uint8_t, 32> a{};
        for (auto& x : a) x = static_cast<std::uint8_t>(next() & 0xFF);
        return a;
    }
    std::uint64_t u64() {  // two 32-bit halves, high first
        std::uint64_t hi = static_cast<std::uint64_t>(next()) & 0xFFFFFFFFULL;
        std::uint64_t lo = static_cast<std::uint64_t>(next()) & 0xFFFFFFFFULL;
        return (hi << 32) | lo;
    }
};

struct Out {
    std::vector<i64> v;
    void put(i64 x) { v.push_back(x); }
    template <class C> void bytes(const C& c) {
        v.push_back(static_cast<i64>(c.size()));
        for (auto b : c) v.push_back(static_cast<i64>(static_cast<std::uint8_t>(b)));
    }
    template <class C> void raw(const C& c) {
        for (auto b : c) v.push_back(static_cast<i64>(static_cast<std::uint8_t>(b)));
    }
    void u64(std::uint64_t x) { v.push_back(static_cast<i64>(x >> 32)); v.push_back(static_cast<i64>(x & 0xFFFFFFFFULL)); }
};

// Exact-size heap copy so that a 1-byte over-read is visible to ASan.
struct TightBuf {
    std::uint8_t* p;
    std::size_t n;
    explicit TightBuf(const std::vector<std::uint8_t>& v) : p(static_cast<std::uint8_t*>(std::malloc(v.size() ? v.size() : 1))), n(v.size()) {
        if (!v.empty()) std::memcpy(p, v.data(), v.size());
    }
    ~TightBuf() { std::free(p); }
    std::span<const std::uint8_t> span() const { return std::span<const std::uint8_t>(v_ptr(), n); }
    const std::uint8_t* v_ptr() const { return n ? p : p; }
    TightBuf(const TightBuf&) = delete;
    TightBuf& operator=(const TightBuf&) = delete;
};

inline i64 classify_current_exception() {
    try { throw; }
    catch (const std::filesystem::filesystem_error&) { return FilesystemError; }
    catch (const std::invalid_argument&) { return InvalidArgument; }
    catch (const std::length_error&) { return LengthError; }
    catch (const std::out_of_range&) { return OutOfRange; }
    catch (const std::logic_error&) { return LogicError; }
    catch (const std::bad_alloc&) { return BadAlloc; }
    catch (const std::runtime_error&) { return RuntimeError; }
    catch (const std::exception&) { return OtherStd; }
    catch (...) { return Unknown; }
}

// Run `f`, recording an escaping exception as [kThrow, class] appended to out.
template <class F> bool guarded(Out& out, F&& f) {
    try { f(); return true; }
    catch (...) { out.put(kThrow); out.put(classify_current_exception()); return false; }
}

inline int main_loop(const std::function<void(In&, Out&)>& f, unsigned per_case_alarm_s = 20) {
    std::ios::sync_with_stdio(false);
    std::string line;
    while (std::getline(std::cin, line)) {
        In in;
        {
            const char* s = line.c_str();
            char* end = nullptr;
            while (*s) {
                while (*s == ' ' || *s == '\t' || *s == '\r') ++s;
                if (!*s) break;
                i64 x = std::strtoll(s, &end, 10);
                if (end == s) break;
                in.v.push_back(x);
                s = end;
            }
        }
        Out out;
        alarm(per_case_alarm_s);   // a hang kills the process with SIGALRM; the checker records HANG
        try { f(in, out); }
        catch (...) { out.v.clear(); out.put(kThrow); out.put(classify_current_exception()); }
        alarm(0);
        std::string o;
        for (std::size_t i = 0; i < out.v.size(); ++i) { if (i) o += ' '; o += std::to_string(out.v[i]); }
        o += '\n';
        if (::write(1, o.data(), o.size()) < 0) return 1;
    }
    return 0;
}
}  // namespace hv

#ifdef HV_VIRTUAL_CLOCK
// Link-time replacement of the libstdc++ clocks for every translation unit of the executable.
namespace std { namespace chrono { inline namespace _V2 {
steady_clock::time_point steady_clock::now() noexcept {
    return time_point(duration(hv::g_now_ns));
}
system_clock::time_point system_clock::now() noexcept {
    return time_point(duration(hv::g_now_ns + hv::g_sys_offset_ns));
}
} } }
#endif
