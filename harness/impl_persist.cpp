// "persist" family (C04): the real ChunkStore with persistence enabled on a scratch directory, under the harness clock.
// Operations: put, get_record, sweep_expired, clock advance, and "restart": the store object is destroyed, arbitrary chunk
// files are dropped into the directory (whatever a crash in the middle of a store or a wipe may have left: any content under
// any key), and a new ChunkStore is constructed on the same directory.  After every operation the directory is listed:
// every <hex>.chunk regular file with its bytes.  A foreign file and a sub-directory named like a chunk file are placed
// in the directory at the start; they must never be touched.
#define HV_VIRTUAL_CLOCK
#include "common.hpp"
#include <dlfcn.h>
#include <sys/uio.h>
#include <fcntl.h>
#include <cstdarg>
#include <sys/wait.h>
#include <fstream>
#include <map>
#include <memory>
#include "ephemeralnet/storage/ChunkStore.hpp"
using namespace ephemeralnet;
using hv::In; using hv::Out; using hv::i64;
namespace fs = std::filesystem;

// ---- crash injection: the file-system calls a store or a wipe makes are counted in a forked child, which dies at the N-th ----
static long g_crash_countdown = -1;      // armed only in the child
static void crash_point() { if (g_crash_countdown > 0 && --g_crash_countdown == 0) ::_exit(77); }
template <class F> static F real(const char* name) { return reinterpret_cast<F>(::dlsym(RTLD_NEXT, name)); }
extern "C" {
FILE* fopen(const char* p, const char* m) { crash_point(); return real<FILE* (*)(const char*, const char*)>("fopen")(p, m); }
int open(const char* p, int flags, ...) { crash_point(); va_list ap; va_start(ap, flags); const int mode = va_arg(ap, int); va_end(ap); return real<int (*)(const char*, int, ...)>("open")(p, flags, mode); }
ssize_t write(int fd, const void* b, size_t n) {
    // a write may also stop half way: the first half reaches the disk, then the process dies
    if (g_crash_countdown == 1 && n > 1 && fd > 2) { real<ssize_t (*)(int, const void*, size_t)>("write")(fd, b, n / 2); ::_exit(77); }
    if (fd > 2) crash_point();
    return real<ssize_t (*)(int, const void*, size_t)>("write")(fd, b, n);
}
// libstdc++ hands a large ofstream::write to writev: the same crash points (before it, and half way through it)
ssize_t writev(int fd, const struct iovec* iov, int cnt) {
    auto w = real<ssize_t (*)(int, const void*, size_t)>("write");
    size_t total = 0; for (int i = 0; i < cnt; ++i) total += iov[i].iov_len;
    if (g_crash_countdown == 1 && total > 1 && fd > 2) {
        size_t left = total / 2;
        for (int i = 0; i < cnt && left > 0; ++i) { const size_t k = std::min(left, iov[i].iov_len); w(fd, iov[i].iov_base, k); left -= k; }
        ::_exit(77);
    }
    if (fd > 2) crash_point();
    return real<ssize_t (*)(int, const struct iovec*, int)>("writev")(fd, iov, cnt);
}
int unlink(const char* p) { crash_point(); return real<int (*)(const char*)>("unlink")(p); }
int remove(const char* p) { crash_point(); return real<int (*)(const char*)>("remove")(p); }
int rename(const char* a, const char* b) { crash_point(); return real<int (*)(const char*, const char*)>("rename")(a, b); }
int ftruncate(int fd, off_t n) { crash_point(); return real<int (*)(int, off_t)>("ftruncate")(fd, n); }
}

static ChunkId cid(i64 c) { ChunkId id{}; id[0] = static_cast<std::uint8_t>(c & 0xFF); id[1] = static_cast<std::uint8_t>((c >> 8) & 0xFF); id[31] = 0xC4; return id; }
static std::string fname(i64 c) { return chunk_id_to_string(cid(c)) + ".chunk"; }

static void list_dir(Out& out, const fs::path& dir, i64 maxkey) {
    std::map<i64, std::vector<std::uint8_t>> found;
    std::map<std::string, i64> names;
    for (i64 k = 0; k <= maxkey; ++k) names[fname(k)] = k;
    i64 unknown = 0;
    for (const auto& e : fs::directory_iterator(dir)) {
        const auto n = e.path().filename().string();
        if (n == "notes.txt" || n == "sub.chunk") continue;
        if (!e.is_regular_file()) { ++unknown; continue; }
        const auto it = names.find(n);
        if (it == names.end()) { ++unknown; continue; }
        std::ifstream f(e.path(), std::ios::binary);
        found[it->second] = std::vector<std::uint8_t>((std::istreambuf_iterator<char>(f)), std::istreambuf_iterator<char>());
    }
    out.put(static_cast<i64>(found.size()) + 1000 * unknown);
    for (const auto& [k, b] : found) { out.put(k); out.bytes(b); }
}

int main() {
    static int counter = 0;
    return hv::main_loop([](In& in, Out& out) {
        hv::g_now_ns = 1'000'000'000'000LL;
        const fs::path dir = fs::temp_directory_path() / ("verif-c04-" + std::to_string(::getpid()) + "-" + std::to_string(counter++));
        fs::remove_all(dir); fs::create_directories(dir / "sub.chunk");
        { std::ofstream f(dir / "notes.txt"); f << "keep me"; }
        { std::ofstream f(dir / "sub.chunk" / "inner.chunk"); f << "keep me too"; }
        Config cfg{};
        cfg.storage_persistent_enabled = true; cfg.storage_directory = dir.string();
        cfg.storage_wipe_on_expiry = in.next() != 0;
        cfg.default_chunk_ttl = std::chrono::seconds(in.next());
        cfg.storage_wipe_passes = 2;
        auto store = std::make_unique<ChunkStore>(cfg);
        const i64 maxkey = 40;
        std::vector<std::vector<i64>> history;      // the operations applied so far (for re-creating the state after a crash run)
        auto apply = [&](const std::vector<i64>& op) {
            if (op[0] == 0) { std::vector<std::uint8_t> d; for (std::size_t i = 3; i < op.size(); ++i) d.push_back(static_cast<std::uint8_t>(op[i])); store->put(cid(op[1]), d, std::chrono::seconds(op[2])); }
            else if (op[0] == 2) store->sweep_expired();
            else if (op[0] == 3) hv::g_now_ns += (op[1] > 0 ? op[1] : 0) * 1'000'000LL;
        };
        while (!in.eof()) {
            const i64 code = in.next();
            if (code == 5) {
                // crash enumeration: the next operation (a put or a sweep) is run in a child that dies at its N-th file-system
                // call, N = 1, 2, ...; after every death a new instance starts on the directory and the directory is listed
                std::vector<i64> target{in.next()};
                if (target[0] == 0) { target.push_back(in.next()); target.push_back(in.next()); const auto d = in.bytes(); for (auto b : d) target.push_back(b); }
                i64 worst = 0, points = 0;
                for (long n = 1; n <= 300; ++n) {
                    std::fflush(nullptr);
                    const pid_t pid = ::fork();
                    if (pid == 0) { g_crash_countdown = n; apply(target); ::_exit(0); }
                    int status = 0; ::waitpid(pid, &status, 0);
                    const bool crashed = WIFEXITED(status) && WEXITSTATUS(status) == 77;
                    if (crashed) ++points;
                    // restart on what the dead process left behind
                    store.reset(); store = std::make_unique<ChunkStore>(cfg);
                    Out tmp; list_dir(tmp, dir, maxkey);
                    worst = std::max(worst, tmp.v[0]);
                    // back to the state before the target operation
                    hv::g_now_ns = 1'000'000'000'000LL;
                    for (const auto& op : history) apply(op);
                    if (!crashed) break;
                }
                out.put(worst); out.put(points >= 2 ? 1 : 0);
                apply(target); history.push_back(target);
                list_dir(out, dir, maxkey);
                continue;
            }
            if (code == 0) { const i64 k = in.next(), ttl = in.next(); auto d = in.bytes(); std::vector<i64> op{0, k, ttl}; for (auto b : d) op.push_back(b); apply(op); history.push_back(op); }
            else if (code == 1) { const i64 k = in.next(); const auto r = store->get_record(cid(k)); if (r) { out.put(1); out.bytes(r->data); } else out.put(0); }
            else if (code == 2) { apply({2}); history.push_back({2}); }
            else if (code == 3) { const i64 ms = in.next(); apply({3, ms}); history.push_back({3, ms}); }
            else {
                const i64 n = in.next();
                store.reset();
                for (i64 i = 0; i < n; ++i) { const i64 k = in.next(); const auto b = in.bytes(); std::ofstream f(dir / fname(k), std::ios::binary | std::ios::trunc); f.write(reinterpret_cast<const char*>(b.data()), static_cast<std::streamsize>(b.size())); }
                store = std::make_unique<ChunkStore>(cfg);
                history.clear();      // nothing of the earlier instance survives (with wipe-on-expiry; the crash mode is only used with it)
            }
            list_dir(out, dir, maxkey);
        }
        // the bystanders are still there
        std::ifstream a(dir / "notes.txt"), b(dir / "sub.chunk" / "inner.chunk");
        std::string sa((std::istreambuf_iterator<char>(a)), std::istreambuf_iterator<char>()), sb((std::istreambuf_iterator<char>(b)), std::istreambuf_iterator<char>());
        out.put(sa == "keep me" && sb == "keep me too" ? 1 : 0);
        store.reset();
        fs::remove_all(dir);
    }, 60);
}
