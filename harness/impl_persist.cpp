// "persist" family (C04): the real ChunkStore with persistence enabled on a scratch directory, under the harness clock.
// Operations: put, get_record, sweep_expired, clock advance, and "restart": the store object is destroyed, arbitrary chunk
// files are dropped into the directory (whatever a crash in the middle of a store or a wipe may have left: any content under
// any key), and a new ChunkStore is constructed on the same directory.  After every operation the directory is listed:
// every <hex>.chunk regular file with its bytes.  A foreign file and a sub-directory named like a chunk file are placed
// in the directory at the start; they must never be touched.
#define HV_VIRTUAL_CLOCK
#include "common.hpp"
#include <fstream>
#include <map>
#include <memory>
#include "ephemeralnet/storage/ChunkStore.hpp"
using namespace ephemeralnet;
using hv::In; using hv::Out; using hv::i64;
namespace fs = std::filesystem;

static ChunkId cid(i64 c) { ChunkId id{}; id[0] = static_cast<std::uint8_t>(c & 0xFF); id[1] = static_cast<std::uint8_t>((c >> 8) & 0xFF); id[31] = 0xC4; return id; }
static std::string fname(i64 c) { return chunk_id_to_string(cid(c)) + ".chunk"; }

static void list_dir(Out& out, const fs::path& dir, i64 maxkey) {
    std::map<i64, std::vector<std::uint8_t>> found;
    std::map<std::string, i64> names;
    for (i64 k = 0; k <= maxkey; ++k) names[fname(k)] = k;
    i64 unknown = 0;
    for (const auto& e : fs::directory_iterator(dir)) {
        const auto n = e.path().filename().string();
        if (n == "notes.txt" || n == "sub.chunk") continue;
        if (!e.is_regular_file()) { ++unknown; continue; }
        const auto it = names.find(n);
        if (it == names.end()) { ++unknown; continue; }
        std::ifstream f(e.path(), std::ios::binary);
        found[it->second] = std::vector<std::uint8_t>((std::istreambuf_iterator<char>(f)), std::istreambuf_iterator<char>());
    }
    out.put(static_cast<i64>(found.size()) + 1000 * unknown);
    for (const auto& [k, b] : found) { out.put(k); out.bytes(b); }
}

int main() {
    static int counter = 0;
    return hv::main_loop([](In& in, Out& out) {
        hv::g_now_ns = 1'000'000'000'000LL;
        const fs::path dir = fs::temp_directory_path() / ("verif-c04-" + std::to_string(::getpid()) + "-" + std::to_string(counter++));
        fs::remove_all(dir); fs::create_directories(dir / "sub.chunk");
        { std::ofstream f(dir / "notes.txt"); f << "keep me"; }
        { std::ofstream f(dir / "sub.chunk" / "inner.chunk"); f << "keep me too"; }
        Config cfg{};
        cfg.storage_persistent_enabled = true; cfg.storage_directory = dir.string();
        cfg.storage_wipe_on_expiry = in.next() != 0;
        cfg.default_chunk_ttl = std::chrono::seconds(in.next());
        cfg.storage_wipe_passes = 2;
        auto store = std::make_unique<ChunkStore>(cfg);
        const i64 maxkey = 40;
        while (!in.eof()) {
            const i64 code = in.next();
            if (code == 0) { const i64 k = in.next(), ttl = in.next(); auto d = in.bytes(); store->put(cid(k), d, std::chrono::seconds(ttl)); }
            else if (code == 1) { const i64 k = in.next(); const auto r = store->get_record(cid(k)); if (r) { out.put(1); out.bytes(r->data); } else out.put(0); }
            else if (code == 2) store->sweep_expired();
            else if (code == 3) { const i64 ms = in.next(); hv::g_now_ns += (ms > 0 ? ms : 0) * 1'000'000LL; }
            else {
                const i64 n = in.next();
                store.reset();
                for (i64 i = 0; i < n; ++i) { const i64 k = in.next(); const auto b = in.bytes(); std::ofstream f(dir / fname(k), std::ios::binary | std::ios::trunc); f.write(reinterpret_cast<const char*>(b.data()), static_cast<std::streamsize>(b.size())); }
                store = std::make_unique<ChunkStore>(cfg);
            }
            list_dir(out, dir, maxkey);
        }
        // the bystanders are still there
        std::ifstream a(dir / "notes.txt"), b(dir / "sub.chunk" / "inner.chunk");
        std::string sa((std::istreambuf_iterator<char>(a)), std::istreambuf_iterator<char>()), sb((std::istreambuf_iterator<char>(b)), std::istreambuf_iterator<char>());
        out.put(sa == "keep me" && sb == "keep me too" ? 1 : 0);
        store.reset();
        fs::remove_all(dir);
    }, 60);
}
