// "rotation" family (C39): two real Nodes that handshake with each other, hold a live transport session to each other
// (an AF_UNIX socketpair adopted by both SessionManagers) and then tick -- Node::tick -> rotate_session_keys ->
// KeyManager::rotate_if_needed / SessionManager::register_peer_key -- each under ITS OWN clock reading: the harness sets
// the process clock to the acting node's reading before every call.  Observed after every tick: did this tick rotate,
// both KeyManager keys, both live-session keys, whether both sessions are still open, and whether a message sealed by
// one end (protocol::encode_signed + ChaCha20 with that end's keys) opens at the other end with the other end's keys.
// Mode 2 drives a bare KeyManager.
#define HV_VIRTUAL_CLOCK
#include "common.hpp"
#include <sys/socket.h>
#include <atomic>
#include <map>
#include <mutex>
#include <thread>
#include <unordered_map>
#include <optional>
#include <memory>
#include <variant>
#define private public
#include "ephemeralnet/network/SessionManager.hpp"
#include "ephemeralnet/network/KeyManager.hpp"
#undef private
#include "ephemeralnet/core/Node.hpp"
#include "ephemeralnet/crypto/ChaCha20.hpp"
#include "ephemeralnet/protocol/Message.hpp"
namespace ephemeralnet::test {
class NodeTestAccess {
public:
    static std::uint32_t scalar(const Node& n) { return n.identity_scalar_; }
    static network::SessionManager& sessions(Node& n) { return n.sessions_; }
    static std::optional<std::array<std::uint8_t, 32>> km_key(Node& n, const PeerId& p) { return n.key_manager_.current_key(p); }
};
}
using namespace ephemeralnet;
using hv::In; using hv::Out; using hv::i64;
using TA = ephemeralnet::test::NodeTestAccess;
using Key32 = std::array<std::uint8_t, 32>;

static std::optional<Key32> live_key(Node& n, const PeerId& peer) {
    auto& sm = TA::sessions(n);
    std::scoped_lock lock(sm.sessions_mutex_);
    const auto it = sm.sessions_.find(peer_id_to_string(peer));
    if (it == sm.sessions_.end() || !it->second) return std::nullopt;
    return it->second->key;
}

// what SessionManager::send / receive_loop and Node::send / handle_transport_message do with the two ends' keys
static bool opens(const Key32& sign_key, const Key32& seal_key, const Key32& open_key, const Key32& verify_key, const PeerId& who) {
    protocol::Message m{};
    m.type = protocol::MessageType::Acknowledge;
    protocol::AcknowledgePayload p{}; p.chunk_id = who; p.peer_id = who; p.accepted = true;
    m.payload = p;
    const auto plain = protocol::encode_signed(m, std::span<const std::uint8_t>(sign_key));
    crypto::Key k1{}; k1.bytes = seal_key; crypto::Key k2{}; k2.bytes = open_key;
    crypto::Nonce nonce{}; for (std::size_t i = 0; i < nonce.bytes.size(); ++i) nonce.bytes[i] = static_cast<std::uint8_t>(i * 13 + 1);
    std::vector<std::uint8_t> ct(plain.size()), back(plain.size());
    crypto::ChaCha20::apply(k1, nonce, plain, ct, 0u);
    crypto::ChaCha20::apply(k2, nonce, ct, back, 0u);
    return protocol::decode_signed(back, std::span<const std::uint8_t>(verify_key)).has_value();
}

static void put_key(Out& out, const std::optional<Key32>& k) { if (k) out.raw(*k); else out.put(-7); }

int main() {
    return hv::main_loop([](In& in, Out& out) {
        const i64 mode = in.next();
        if (mode == 1) {
            in.next(); in.next();   // the scalars the checker predicted (the model's inputs)
            const auto seed_a = static_cast<std::uint32_t>(in.next()), seed_b = static_cast<std::uint32_t>(in.next());
            const PeerId ida = in.id32(), idb = in.id32();
            const i64 iva = in.next(), ivb = in.next();
            const i64 cda = in.next(), cdb = in.next();
            const auto hsa = static_cast<i64>(in.u64()), hsb = static_cast<i64>(in.u64());
            const i64 n = in.next();
            Config ca{}; ca.identity_seed = seed_a; ca.handshake_pow_difficulty = 2; ca.key_rotation_interval = std::chrono::seconds(iva);
            ca.relay_enabled = false; ca.storage_persistent_enabled = false; ca.handshake_cooldown = std::chrono::seconds(cda);
            Config cb{}; cb.identity_seed = seed_b; cb.handshake_pow_difficulty = 2; cb.key_rotation_interval = std::chrono::seconds(ivb);
            cb.relay_enabled = false; cb.storage_persistent_enabled = false; cb.handshake_cooldown = std::chrono::seconds(cdb);
            hv::g_now_ns = std::min(hsa, hsb);
            // the nodes own live sessions with reader threads: they are never destroyed
            auto* A = new Node(ida, ca); auto* B = new Node(idb, cb);
            const auto wa = A->generate_handshake_work(idb);
            const auto wb = B->generate_handshake_work(ida);
            hv::g_now_ns = hsb;
            const bool okb = wa && B->perform_handshake(ida, A->public_identity(), *wa);
            hv::g_now_ns = hsa;
            const bool oka = wb && A->perform_handshake(idb, B->public_identity(), *wb);
            if (!oka || !okb) { out.put(-8); return; }
            int sv[2];
            if (::socketpair(AF_UNIX, SOCK_STREAM, 0, sv) != 0) { out.put(-9); return; }
            if (!TA::sessions(*A).adopt_outbound_socket(idb, sv[0], true) || !TA::sessions(*B).adopt_outbound_socket(ida, sv[1], true)) { out.put(-10); return; }
            out.put(TA::scalar(*A)); out.put(TA::scalar(*B));
            auto observe = [&](bool rotated) {
                out.put(rotated ? 1 : 0);
                const auto ka = TA::km_key(*A, idb), kb = TA::km_key(*B, ida);
                const auto la = live_key(*A, idb), lb = live_key(*B, ida);
                put_key(out, ka); put_key(out, kb); put_key(out, la); put_key(out, lb);
                out.put(TA::sessions(*A).is_connected(idb) ? 1 : 0);
                out.put(TA::sessions(*B).is_connected(ida) ? 1 : 0);
                const bool all = ka && kb && la && lb;
                out.put(all && opens(*ka, *la, *lb, *kb, ida) ? 1 : 0);
                out.put(all && opens(*kb, *lb, *la, *ka, idb) ? 1 : 0);
            };
            observe(false);
            for (i64 i = 0; i < n; ++i) {
                const i64 who = in.next();
                const auto t = static_cast<i64>(in.u64());
                hv::g_now_ns = t;
                if (who >= 2) {
                    // the same handshake (public key, nonce) as before reaches the node again
                    const bool ok = who == 2 ? A->perform_handshake(idb, B->public_identity(), *wb)
                                             : B->perform_handshake(ida, A->public_identity(), *wa);
                    observe(ok);
                    continue;
                }
                Node& X = (who == 0) ? *A : *B;
                const PeerId& other = (who == 0) ? idb : ida;
                const auto before = TA::km_key(X, other);
                X.tick();
                const auto after = TA::km_key(X, other);
                observe(before != after);
            }
            // end of the case: both reader threads see end-of-stream, close their sockets and exit (the nodes stay allocated)
            ::shutdown(sv[0], SHUT_RDWR); ::shutdown(sv[1], SHUT_RDWR);
        } else if (mode == 2) {
            crypto::Key shared{}; shared.bytes = in.id32();
            const auto material = in.bytes();
            const i64 iv = in.next();
            const auto t0 = static_cast<i64>(in.u64());
            const i64 n = in.next();
            PeerId peer{}; peer[0] = 0x39;
            network::KeyManager km{std::chrono::seconds(iv)};
            using TP = std::chrono::steady_clock::time_point;
            km.register_session_with_material(peer, shared, material, TP(std::chrono::nanoseconds(t0)));
            put_key(out, km.current_key(peer));
            for (i64 i = 0; i < n; ++i) {
                const auto t = static_cast<i64>(in.u64());
                const auto r = km.rotate_if_needed(peer, TP(std::chrono::nanoseconds(t)));
                out.put(r.has_value() ? 1 : 0);
                out.put(static_cast<i64>(km.contexts_.at(peer_id_to_string(peer)).counter & 0xFFFFFFFFu));
                put_key(out, km.current_key(peer));
                if (r.has_value() && *r != *km.current_key(peer)) out.put(-11);
            }
        } else out.put(-1);
    });
}
