// "cleanup" family (C05): a real Node under the harness clock (advanced in whole seconds).  Operations: store_chunk,
// ingest_manifest of a manifest published elsewhere (expiry = now + remaining), a provider contact learnt for a chunk
// (KademliaTable::add_contact through the friend class), fetch_chunk, tick, clock advance.  After every operation the
// cleanup notifications are drained, and for every chunk id the harness reports: held (raw ChunkStore snapshot), manifest
// cached, swarm plan present, key-share record present, locator present, number of holders; then the TTL audit's counts.
#define HV_VIRTUAL_CLOCK
#include "common.hpp"
#include <map>
#include <optional>
#include <unordered_map>
#define private public
#include "ephemeralnet/dht/KademliaTable.hpp"
#undef private
#include "ephemeralnet/core/Node.hpp"
#include "ephemeralnet/protocol/Manifest.hpp"
namespace ephemeralnet::test {
class NodeTestAccess {
public:
    static bool manifest(Node& n, const ChunkId& c) { return n.manifest_cache_.count(chunk_id_to_string(c)) != 0; }
    static bool plan(Node& n, const ChunkId& c) { return n.swarm_plans_.count(chunk_id_to_string(c)) != 0; }
    static KademliaTable& dht(Node& n) { return n.dht_; }
    static bool held(Node& n, const ChunkId& c) {
        for (const auto& e : n.chunk_store_.snapshot()) if (e.id == c) return true;
        return false;
    }
};
}
using namespace ephemeralnet;
using hv::In; using hv::Out; using hv::i64;
using TA = ephemeralnet::test::NodeTestAccess;

static ChunkId cid(i64 c) { ChunkId id{}; id[0] = static_cast<std::uint8_t>(c); id[31] = 0xC5; return id; }
static PeerId pid(i64 p) { PeerId id{}; id[0] = 0x70; id[1] = static_cast<std::uint8_t>(p); return id; }
static i64 chunk_of(const std::string& key) { for (i64 c = 0; c < 64; ++c) if (chunk_id_to_string(cid(c)) == key) return c; return -1; }

int main() {
    return hv::main_loop([](In& in, Out& out) {
        hv::g_now_ns = 1000LL * 1'000'000'000LL;
        Config cfg{};
        cfg.identity_seed = 5u; cfg.relay_enabled = false; cfg.storage_persistent_enabled = false;
        cfg.cleanup_interval = std::chrono::seconds(in.next());
        cfg.min_manifest_ttl = std::chrono::seconds(1); cfg.max_manifest_ttl = std::chrono::seconds(86400);
        cfg.key_rotation_interval = std::chrono::seconds(3600);
        const i64 nc = in.next();
        PeerId self{}; self[0] = 0x05;
        Node node(self, cfg);
        Config pc = cfg; pc.identity_seed = 6u;
        PeerId pubid{}; pubid[0] = 0x06;
        Node publisher(pubid, pc);
        while (!in.eof()) {
            const i64 code = in.next(), a = in.next(), b = in.next(), c = in.next();
            if (code == 0) node.store_chunk(cid(a), ChunkData{static_cast<std::uint8_t>(a), 1}, std::chrono::seconds(b));
            else if (code == 1) {
                auto m = publisher.store_chunk(cid(a), ChunkData{static_cast<std::uint8_t>(a), 2}, std::chrono::seconds(600));
                m.expires_at = std::chrono::system_clock::now() + std::chrono::seconds(b);
                node.ingest_manifest(protocol::encode_manifest(m));
            }
            else if (code == 2) { PeerContact pc2{}; pc2.id = pid(b); pc2.address = "peer"; TA::dht(node).add_contact(cid(a), pc2, std::chrono::seconds(c)); }
            else if (code == 3) (void)node.fetch_chunk(cid(a));
            else if (code == 4) node.tick();
            else hv::g_now_ns += (a > 0 ? a : 0) * 1'000'000'000LL;
            auto notes = node.drain_cleanup_notifications();
            std::vector<i64> ids;
            for (const auto& k : notes) ids.push_back(chunk_of(k));
            std::sort(ids.begin(), ids.end());
            out.put(static_cast<i64>(ids.size()));
            for (auto v : ids) out.put(v);
            auto& dht = TA::dht(node);
            for (i64 ch = 1; ch <= nc; ++ch) {
                const auto key = chunk_id_to_string(cid(ch));
                out.put(TA::held(node, cid(ch)) ? 1 : 0);
                out.put(TA::manifest(node, cid(ch)) ? 1 : 0);
                out.put(TA::plan(node, cid(ch)) ? 1 : 0);
                out.put(dht.shard_table_.count(key) ? 1 : 0);
                const auto it = dht.table_.find(key);
                out.put(it != dht.table_.end() ? 1 : 0);
                out.put(it != dht.table_.end() ? static_cast<i64>(it->second.holders.size()) : 0);
            }
            const auto audit = node.audit_ttl();
            out.put(static_cast<i64>(audit.expired_local_chunks.size()));
            out.put(static_cast<i64>(audit.expired_locator_chunks.size()));
            out.put(static_cast<i64>(audit.expired_contacts.size()));
        }
    }, 60);
}
