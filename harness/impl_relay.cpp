// "relay" family (C25, C26): the real RelayServer on the real EventLoop (both with private members opened to the harness).
// The server listens on 127.0.0.1 (ephemeral port); clients are TCP connections the harness makes; the harness plays the
// history: connect, send bytes from a client, disconnect a client.  After every action the real EventLoop::run processes
// batches of events until nothing is pending (a watcher on a pipe stops each batch, so the schedule is the harness's: one
// client action is handled completely before the next).  Observed after every action: the bytes that arrived at each
// client, whether the server still holds a session for it (and whether the client saw its connection closed), the number
// of sessions and registry entries, and -- once at the end -- the descriptors the process holds.
#include "common.hpp"
#include <arpa/inet.h>
#include <atomic>
#include <dirent.h>
#include <fcntl.h>
#include <functional>
#include <memory>
#include <netinet/in.h>
#include <netinet/tcp.h>
#include <poll.h>
#include <sys/ioctl.h>
#include <linux/sockios.h>
#include <sys/socket.h>
#include <unordered_map>
#define private public
#include "ephemeralnet/relay/EventLoop.hpp"
#include "ephemeralnet/relay/RelayServer.hpp"
#undef private
using hv::In; using hv::Out; using hv::i64;
namespace rl = ephemeralnet::relay;

struct Client { int fd = -1; int server_fd = -1; bool peer_closed = false; };

static int count_fds() {
    int n = 0; DIR* d = ::opendir("/proc/self/fd"); if (!d) return -1;
    while (auto* e = ::readdir(d)) if (e->d_name[0] != '.') ++n;
    ::closedir(d); return n - 1;       // the directory stream's own descriptor
}

int main() {
    return hv::main_loop([](In& in, Out& out) {
        const int fds_before = count_fds();
        {
            rl::EventLoop loop;
            rl::RelayServerConfig cfg{}; cfg.listen_host = "127.0.0.1"; cfg.listen_port = 0;
            rl::RelayServer server(loop, cfg);
            {
                std::ostringstream sink; auto* old = std::cout.rdbuf(sink.rdbuf());
                const bool ok = server.start();
                std::cout.rdbuf(old);
                if (!ok) { out.put(-9); return; }
            }
            sockaddr_in addr{}; socklen_t alen = sizeof addr;
            ::getsockname(server.listen_fd_, reinterpret_cast<sockaddr*>(&addr), &alen);
            // the stopper: a pipe whose read end is watched; its callback ends the current run()
            int sp[2]; if (::pipe2(sp, O_NONBLOCK | O_CLOEXEC) != 0) { out.put(-9); return; }
            loop.add(sp[0], rl::EventLoop::kEventReadable, [&](int fd, std::uint32_t) { char b[16]; while (::read(fd, b, sizeof b) > 0) { } loop.stop(); });
            auto pending = [&]() {
                // is any descriptor the loop watches ready for what it is watched for?
                std::vector<pollfd> pf;
                for (const auto& [fd, w] : loop.watchers_) {
                    if (fd == sp[0]) continue;
                    short ev = 0; if (w.events & rl::EventLoop::kEventReadable) ev |= POLLIN; if (w.events & rl::EventLoop::kEventWritable) ev |= POLLOUT;
                    pf.push_back({fd, ev, 0});
                }
                if (pf.empty()) return false;
                return ::poll(pf.data(), pf.size(), 0) > 0;
            };
            std::vector<Client> clients;
            // everything the server has written has reached the client's end (the server's sockets use Nagle's algorithm: a
            // second small segment waits for the acknowledgement of the first; the clients acknowledge at once)
            auto in_flight = [&]() {
                for (const auto& [fd, sess] : server.sessions_) { int q = 0; if (::ioctl(fd, SIOCOUTQ, &q) == 0 && q > 0) return true; }
                return false;
            };
            auto quickack = [&]() { for (auto& c : clients) if (c.fd >= 0) { int one = 1; ::setsockopt(c.fd, IPPROTO_TCP, TCP_QUICKACK, &one, sizeof one); } };
            auto settle = [&]() {
                for (int round = 0; round < 2000; ++round) {
                    quickack();
                    bool any = false;
                    for (int spin = 0; spin < 3 && !any; ++spin) { any = pending(); if (!any) ::usleep(200); }
                    if (!any) {
                        if (!in_flight()) return;
                        ::usleep(500);
                        continue;
                    }
                    const char one = 1; (void)!::write(sp[1], &one, 1);
                    loop.run();
                }
            };
            while (!in.eof()) {
                const i64 code = in.next();
                if (code == 0) {
                    Client c{};
                    c.fd = ::socket(AF_INET, SOCK_STREAM, 0);
                    int one = 1; ::setsockopt(c.fd, IPPROTO_TCP, TCP_NODELAY, &one, sizeof one);
                    if (::connect(c.fd, reinterpret_cast<sockaddr*>(&addr), sizeof addr) != 0) { out.put(-10); return; }
                    std::vector<int> before; for (const auto& [fd, s] : server.sessions_) before.push_back(fd);
                    settle();
                    for (const auto& [fd, s] : server.sessions_) if (std::find(before.begin(), before.end(), fd) == before.end()) c.server_fd = fd;
                    clients.push_back(c);
                } else if (code == 1) {
                    const i64 i = in.next(); const auto data = in.bytes();
                    if (i >= 0 && i < static_cast<i64>(clients.size()) && clients[static_cast<std::size_t>(i)].fd >= 0) {
                        std::size_t off = 0;
                        while (off < data.size()) {
                            const ssize_t n = ::send(clients[static_cast<std::size_t>(i)].fd, data.data() + off, data.size() - off, MSG_NOSIGNAL);
                            if (n <= 0) break;
                            off += static_cast<std::size_t>(n);
                        }
                    }
                    settle();
                } else {
                    const i64 i = in.next();
                    if (i >= 0 && i < static_cast<i64>(clients.size()) && clients[static_cast<std::size_t>(i)].fd >= 0) {
                        ::close(clients[static_cast<std::size_t>(i)].fd); clients[static_cast<std::size_t>(i)].fd = -1;
                    }
                    settle();
                }
                out.put(static_cast<i64>(clients.size()));
                for (auto& c : clients) {
                    std::vector<std::uint8_t> got;
                    if (c.fd >= 0) {
                        std::uint8_t buf[65536];
                        for (;;) {
                            const ssize_t n = ::recv(c.fd, buf, sizeof buf, MSG_DONTWAIT);
                            if (n > 0) { got.insert(got.end(), buf, buf + n); continue; }
                            if (n == 0 || (n < 0 && errno != EAGAIN && errno != EWOULDBLOCK && errno != EINTR)) c.peer_closed = true;
                            break;
                        }
                    }
                    out.bytes(got);
                    // the server still holds this client's session (its descriptor may have been reused by a later client)
                    bool open = false;
                    if (c.server_fd >= 0) {
                        const auto it = server.sessions_.find(c.server_fd);
                        open = it != server.sessions_.end() && !it->second->closing;
                        if (!open) c.server_fd = -1;      // noticed before any later connection can reuse the number
                    }
                    out.put(open ? 1 : 0);
                }
                out.put(static_cast<i64>(server.sessions_.size()));
                out.put(static_cast<i64>(server.registered_.size()));
                out.put(0);
            }
            // every client leaves; then the server must hold nothing
            for (auto& c : clients) if (c.fd >= 0) { ::close(c.fd); c.fd = -1; }
            settle();
            out.put(static_cast<i64>(server.sessions_.size()));
            out.put(static_cast<i64>(server.registered_.size()));
            out.put(static_cast<i64>(loop.watchers_.size()));        // the listener and the stopper remain
            loop.remove(sp[0]); ::close(sp[0]); ::close(sp[1]);
            out.put(count_fds() - fds_before);                          // epoll, eventfd, listener
        }
        out.put(count_fds() - fds_before);
    }, 60);
}
