// "relay" family (C25, C26): the real RelayServer on the real EventLoop (both with private members opened to the harness).
// The server listens on 127.0.0.1 (ephemeral port); clients are TCP connections the harness makes; the harness plays the
// history: connect, send bytes from a client, disconnect a client.  After every action the real EventLoop::run processes
// batches of events until nothing is pending (a watcher on a pipe stops each batch, so the schedule is the harness's: one
// client action is handled completely before the next).  Observed after every action: the bytes that arrived at each
// client, whether the server still holds a session for it (and whether the client saw its connection closed), the number
// of sessions and registry entries, and -- once at the end -- the descriptors the process holds.  A fourth action: a bridged
// client sends n patterned bytes while its partner does not read (the clients' receive buffers are small, so the data backs
// up into the server); then the partner reads everything and a digest (count, position-weighted sum) is reported.
#include "common.hpp"
#include <arpa/inet.h>
#include <atomic>
#include <dirent.h>
#include <fcntl.h>
#include <functional>
#include <memory>
#include <netinet/in.h>
#include <netinet/tcp.h>
#include <poll.h>
#include <sys/ioctl.h>
#include <linux/sockios.h>
#include <sys/socket.h>
#include <unordered_map>
#define private public
#include "ephemeralnet/relay/EventLoop.hpp"
#include "ephemeralnet/relay/RelayServer.hpp"
#undef private
using hv::In; using hv::Out; using hv::i64;
namespace rl = ephemeralnet::relay;

struct Client { int fd = -1; int server_fd = -1; bool peer_closed = false; std::vector<std::uint8_t> inbox; };

static int count_fds() {
    int n = 0; DIR* d = ::opendir("/proc/self/fd"); if (!d) return -1;
    while (auto* e = ::readdir(d)) if (e->d_name[0] != '.') ++n;
    ::closedir(d); return n - 1;       // the directory stream's own descriptor
}

int main() {
    return hv::main_loop([](In& in, Out& out) {
        const int fds_before = count_fds();
        {
            rl::EventLoop loop;
            rl::RelayServerConfig cfg{}; cfg.listen_host = "127.0.0.1"; cfg.listen_port = 0;
            rl::RelayServer server(loop, cfg);
            {
                std::ostringstream sink; auto* old = std::cout.rdbuf(sink.rdbuf());
                const bool ok = server.start();
                std::cout.rdbuf(old);
                if (!ok) { out.put(-9); return; }
            }
            sockaddr_in addr{}; socklen_t alen = sizeof addr;
            ::getsockname(server.listen_fd_, reinterpret_cast<sockaddr*>(&addr), &alen);
            // the stopper: a pipe whose read end is watched; its callback ends the current run()
            int sp[2]; if (::pipe2(sp, O_NONBLOCK | O_CLOEXEC) != 0) { out.put(-9); return; }
            loop.add(sp[0], rl::EventLoop::kEventReadable, [&](int fd, std::uint32_t) { char b[16]; while (::read(fd, b, sizeof b) > 0) { } loop.stop(); });
            auto pending = [&]() {
                // is any descriptor the loop watches ready for what it is watched for?
                std::vector<pollfd> pf;
                for (const auto& [fd, w] : loop.watchers_) {
                    if (fd == sp[0]) continue;
                    short ev = 0; if (w.events & rl::EventLoop::kEventReadable) ev |= POLLIN; if (w.events & rl::EventLoop::kEventWritable) ev |= POLLOUT;
                    pf.push_back({fd, ev, 0});
                }
                if (pf.empty()) return false;
                return ::poll(pf.data(), pf.size(), 0) > 0;
            };
            std::vector<Client> clients;
            i64 bulk_client = -1; std::vector<std::uint8_t> bulk_digest;
            // everything the server has written has reached the client's end (the server's sockets use Nagle's algorithm: a
            // second small segment waits for the acknowledgement of the first; the clients acknowledge at once)
            auto in_flight = [&]() {
                for (const auto& [fd, sess] : server.sessions_) { int q = 0; if (::ioctl(fd, SIOCOUTQ, &q) == 0 && q > 0) return true; }
                return false;
            };
            auto quickack = [&]() { for (auto& c : clients) if (c.fd >= 0) { int one = 1; ::setsockopt(c.fd, IPPROTO_TCP, TCP_QUICKACK, &one, sizeof one); } };
            // the clients read what has arrived (their receive buffers are small: a client that did not read would stall the server)
            auto drain_all = [&]() {
                bool any = false;
                for (auto& c : clients) {
                    if (c.fd < 0) continue;
                    std::uint8_t buf[65536];
                    for (;;) {
                        const ssize_t n = ::recv(c.fd, buf, sizeof buf, MSG_DONTWAIT);
                        if (n > 0) { c.inbox.insert(c.inbox.end(), buf, buf + n); any = true; continue; }
                        if (n == 0 || (n < 0 && errno != EAGAIN && errno != EWOULDBLOCK && errno != EINTR)) c.peer_closed = true;
                        break;
                    }
                }
                return any;
            };
            auto settle = [&]() {
                for (int round = 0; round < 4000; ++round) {
                    quickack();
                    if (drain_all()) continue;
                    bool any = false;
                    for (int spin = 0; spin < 3 && !any; ++spin) { any = pending(); if (!any) ::usleep(200); }
                    if (!any) {
                        if (!in_flight()) { drain_all(); return; }
                        ::usleep(500);
                        continue;
                    }
                    const char one = 1; (void)!::write(sp[1], &one, 1);
                    loop.run();
                }
            };
            while (!in.eof()) {
                const i64 code = in.next();
                if (code == 0) {
                    Client c{};
                    c.fd = ::socket(AF_INET, SOCK_STREAM, 0);
                    int one = 1; ::setsockopt(c.fd, IPPROTO_TCP, TCP_NODELAY, &one, sizeof one);
                    int rcv = 8192; ::setsockopt(c.fd, SOL_SOCKET, SO_RCVBUF, &rcv, sizeof rcv);      // a small window: a stalled reader backs up into the server
                    if (::connect(c.fd, reinterpret_cast<sockaddr*>(&addr), sizeof addr) != 0) { out.put(-10); return; }
                    std::vector<int> before; for (const auto& [fd, s] : server.sessions_) before.push_back(fd);
                    settle();
                    for (const auto& [fd, s] : server.sessions_) if (std::find(before.begin(), before.end(), fd) == before.end()) c.server_fd = fd;
                    // the operating system's send buffer for this connection is small too (an OS setting, not the server's): what a
                    // stalled reader does not take stays in the server's own write buffer
                    if (c.server_fd >= 0) { int snd = 8192; ::setsockopt(c.server_fd, SOL_SOCKET, SO_SNDBUF, &snd, sizeof snd); }
                    clients.push_back(c);
                } else if (code == 1) {
                    const i64 i = in.next(); const auto data = in.bytes();
                    if (i >= 0 && i < static_cast<i64>(clients.size()) && clients[static_cast<std::size_t>(i)].fd >= 0) {
                        std::size_t off = 0;
                        while (off < data.size()) {
                            const ssize_t n = ::send(clients[static_cast<std::size_t>(i)].fd, data.data() + off, data.size() - off, MSG_NOSIGNAL);
                            if (n <= 0) break;
                            off += static_cast<std::size_t>(n);
                        }
                    }
                    settle();
                } else if (code == 3) {
                    // a bridged client sends n patterned bytes while its partner does not read; then the partner reads everything
                    const i64 i = in.next(), n = in.next(), seed = in.next();
                    bulk_client = -1;
                    if (i >= 0 && i < static_cast<i64>(clients.size()) && clients[static_cast<std::size_t>(i)].fd >= 0 && clients[static_cast<std::size_t>(i)].server_fd >= 0) {
                        const auto it = server.sessions_.find(clients[static_cast<std::size_t>(i)].server_fd);
                        if (it != server.sessions_.end() && !it->second->closing && it->second->state == rl::RelayServer::SessionState::Bridged) {
                            const auto partner = it->second->partner.lock();
                            for (std::size_t c = 0; partner && c < clients.size(); ++c) if (clients[c].server_fd == partner->fd && clients[c].fd >= 0) bulk_client = static_cast<i64>(c);
                        }
                    }
                    if (bulk_client >= 0) {
                        const int sfd = clients[static_cast<std::size_t>(i)].fd, rfd = clients[static_cast<std::size_t>(bulk_client)].fd;
                        std::uint64_t count = 0, sum = 0;
                        auto drain = [&]() {
                            std::uint8_t buf[65536]; bool any = false;
                            for (;;) {
                                const ssize_t k = ::recv(rfd, buf, sizeof buf, MSG_DONTWAIT);
                                if (k <= 0) break;
                                any = true;
                                for (ssize_t x = 0; x < k; ++x) { ++count; sum = (sum + count * buf[x]) & 0xFFFFFFFFull; }
                            }
                            return any;
                        };
                        auto pump = [&]() { if (!pending()) return false; const char one = 1; (void)!::write(sp[1], &one, 1); loop.run(); return true; };
                        std::vector<std::uint8_t> chunk(65536);
                        i64 sent = 0; int stuck = 0; bool reading = false; std::size_t peak = 0;
                        while (sent < n && stuck < 400) {
                            const i64 want = std::min<i64>(n - sent, static_cast<i64>(chunk.size()));
                            for (i64 x = 0; x < want; ++x) chunk[static_cast<std::size_t>(x)] = static_cast<std::uint8_t>(128 + (seed + 7 * (sent + x)) % 128);
                            const ssize_t k = ::send(sfd, chunk.data(), static_cast<std::size_t>(want), MSG_DONTWAIT | MSG_NOSIGNAL);
                            if (k > 0) { sent += k; stuck = 0; }
                            else { ++stuck; if (stuck > 200) reading = true; }      // the sender cannot make progress: the reader wakes up
                            bool moved = pump();
                            if (std::getenv("RELAY_DEBUG")) { const auto it2 = server.sessions_.find(clients[static_cast<std::size_t>(bulk_client)].server_fd); if (it2 != server.sessions_.end()) peak = std::max(peak, it2->second->write_buffer.size()); }
                            if (reading) moved = drain() || moved;
                            if (k <= 0 && !moved) ::usleep(500);
                        }
                        if (std::getenv("RELAY_DEBUG")) std::fprintf(stderr, "bulk: sent %lld of %lld, peak write_buffer %zu, reading %d\n", sent, n, peak, reading ? 1 : 0);
                        // the partner reads everything
                        for (int quiet = 0; quiet < 60; ) {
                            quickack();
                            bool moved = pump();
                            moved = drain() || moved;
                            if (moved || in_flight()) { if (moved) quiet = 0; else { ++quiet; ::usleep(1000); } } else { ++quiet; ::usleep(200); }
                        }
                        bulk_digest = {static_cast<std::uint8_t>(count >> 24), static_cast<std::uint8_t>(count >> 16), static_cast<std::uint8_t>(count >> 8), static_cast<std::uint8_t>(count),
                                       static_cast<std::uint8_t>(sum >> 24), static_cast<std::uint8_t>(sum >> 16), static_cast<std::uint8_t>(sum >> 8), static_cast<std::uint8_t>(sum)};
                    }
                    settle();
                } else {
                    const i64 i = in.next();
                    if (i >= 0 && i < static_cast<i64>(clients.size()) && clients[static_cast<std::size_t>(i)].fd >= 0) {
                        ::close(clients[static_cast<std::size_t>(i)].fd); clients[static_cast<std::size_t>(i)].fd = -1;
                    }
                    settle();
                }
                out.put(static_cast<i64>(clients.size()));
                for (auto& c : clients) {
                    std::vector<std::uint8_t> got;
                    if (bulk_client >= 0 && &c == &clients[static_cast<std::size_t>(bulk_client)]) got = bulk_digest;     // then whatever else arrived
                    got.insert(got.end(), c.inbox.begin(), c.inbox.end()); c.inbox.clear();
                    out.bytes(got);
                    // the server still holds this client's session (its descriptor may have been reused by a later client)
                    bool open = false;
                    if (c.server_fd >= 0) {
                        const auto it = server.sessions_.find(c.server_fd);
                        open = it != server.sessions_.end() && !it->second->closing;
                        if (!open) c.server_fd = -1;      // noticed before any later connection can reuse the number
                    }
                    out.put(open ? 1 : 0);
                }
                out.put(static_cast<i64>(server.sessions_.size()));
                out.put(static_cast<i64>(server.registered_.size()));
                out.put(0);
                bulk_client = -1; bulk_digest.clear();
            }
            // every client leaves; then the server must hold nothing
            for (auto& c : clients) if (c.fd >= 0) { ::close(c.fd); c.fd = -1; }
            settle();
            out.put(static_cast<i64>(server.sessions_.size()));
            out.put(static_cast<i64>(server.registered_.size()));
            out.put(static_cast<i64>(loop.watchers_.size()));        // the listener and the stopper remain
            loop.remove(sp[0]); ::close(sp[0]); ::close(sp[1]);
            out.put(count_fds() - fds_before);                          // epoll, eventfd, listener
        }
        out.put(count_fds() - fds_before);
    }, 60);
}
