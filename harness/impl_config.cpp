// "config" family (C02): a real Node built from a generated Config (the constructor sanitises it), Node::store_chunk
// under the harness clock with the four deadlines read back, and the control server's STORE handler driven over a
// socketpair (ControlServer.cpp is #included so that Impl::handle_client is reachable; no listening socket, no thread).
#define HV_VIRTUAL_CLOCK
#include "common.hpp"
#include <atomic>
#include <charconv>
#include <condition_variable>
#include <fstream>
#include <map>
#include <mutex>
#include <optional>
#include <set>
#include <thread>
#include <unordered_map>
#include <unordered_set>
#include <sys/socket.h>
namespace ephemeralnet::test {
class NodeTestAccess {
public:
    template <class N> static auto& store(N& n) { return n.chunk_store_; }
    template <class N> static auto& dht(N& n) { return n.dht_; }
};
}
#define private public
#include "daemon/ControlServer.cpp"
#undef private
using hv::In; using hv::Out; using hv::i64;
namespace en = ephemeralnet;

static en::Config read_cfg(In& in) {
    en::Config c{};
    c.min_manifest_ttl = std::chrono::seconds(in.next());
    c.max_manifest_ttl = std::chrono::seconds(in.next());
    c.default_chunk_ttl = std::chrono::seconds(in.next());
    c.key_rotation_interval = std::chrono::seconds(in.next());
    c.announce_min_interval = std::chrono::seconds(in.next());
    c.announce_burst_limit = static_cast<std::size_t>(in.next());
    c.announce_burst_window = std::chrono::seconds(in.next());
    c.announce_pow_difficulty = static_cast<std::uint8_t>(in.next());
    c.handshake_pow_difficulty = static_cast<std::uint8_t>(in.next());
    c.store_pow_difficulty = static_cast<std::uint8_t>(in.next());
    c.identity_seed = 11u;
    c.shard_threshold = 2; c.shard_total = 3;
    c.relay_enabled = false;
    c.storage_persistent_enabled = false;
    return c;
}

static i64 steady_left(std::chrono::steady_clock::time_point t) {
    return std::chrono::duration_cast<std::chrono::seconds>(t - std::chrono::steady_clock::now()).count();
}

int main() {
    return hv::main_loop([](In& in, Out& out) {
        hv::g_now_ns = 1'000'000'000'000LL;
        const i64 mode = in.next();
        en::Config cfg = read_cfg(in);
        if (mode == 3) cfg.store_pow_difficulty = 0;
        en::PeerId self{}; self[0] = 0x02;
        en::Node node(self, cfg);
        const auto& c = node.config();
        if (mode == 1) {
            out.put(c.min_manifest_ttl.count()); out.put(c.max_manifest_ttl.count()); out.put(c.default_chunk_ttl.count());
            out.put(c.key_rotation_interval.count()); out.put(c.announce_min_interval.count());
            out.put(static_cast<i64>(c.announce_burst_limit)); out.put(c.announce_burst_window.count());
            out.put(c.announce_pow_difficulty); out.put(c.handshake_pow_difficulty); out.put(c.store_pow_difficulty);
            return;
        }
        out.put(c.min_manifest_ttl.count()); out.put(c.max_manifest_ttl.count());
        en::ChunkId cid{}; cid[0] = 0x77;
        auto read_lifetimes = [&](Out& o, bool only_chunk) {
            i64 chunk = -999;
            for (const auto& e : en::test::NodeTestAccess::store(node).snapshot()) if (e.id == cid) chunk = steady_left(e.expires_at);
            o.put(chunk);
            if (only_chunk) return;
        };
        if (mode == 2 || mode == 4) {
            i64 ttl = in.next();
            if (mode == 4) {
                // the same chunk is stored twice, the clock moving in between (sub-second steps included): the lifetimes read
                // are those of the second store
                const i64 dt_ms = in.next();
                (void)node.store_chunk(cid, en::ChunkData{1, 2, 3, 4}, std::chrono::seconds(ttl));
                hv::g_now_ns += dt_ms * 1'000'000LL;
                ttl = in.next();
            }
            const auto manifest = node.store_chunk(cid, en::ChunkData{1, 2, 3, 4}, std::chrono::seconds(ttl));
            read_lifetimes(out, true);
            out.put(std::chrono::duration_cast<std::chrono::seconds>(manifest.expires_at - std::chrono::system_clock::now()).count());
            const auto rec = en::test::NodeTestAccess::dht(node).shard_record(cid);
            out.put(rec ? steady_left(rec->expires_at) : -999);
            i64 ann = -999;
            for (const auto& loc : en::test::NodeTestAccess::dht(node).snapshot_locators())
                if (loc.id == cid) for (const auto& h : loc.holders) if (h.id == self) ann = steady_left(h.expires_at);
            out.put(ann);
            return;
        }
        if (mode == 3) {
            const bool has = in.next() != 0;
            const std::string text = in.str();
            std::mutex node_mutex;
            en::daemon::ControlServer::Impl impl(node, node_mutex, [] {});
            int sv[2];
            if (::socketpair(AF_UNIX, SOCK_STREAM, 0, sv) != 0) { out.put(-5); return; }
            const std::string body = "hello";
            std::string req = "COMMAND:STORE\n";
            if (has) req += "TTL:" + text + "\n";
            req += "PAYLOAD-LENGTH:" + std::to_string(body.size()) + "\n\n" + body;
            (void)!::write(sv[1], req.data(), req.size());
            ::shutdown(sv[1], SHUT_WR);
            impl.handle_client(sv[0], "198.51.100.7");
            ::shutdown(sv[0], SHUT_WR);
            std::string resp; char buf[4096]; ssize_t n;
            while ((n = ::read(sv[1], buf, sizeof buf)) > 0) resp.append(buf, static_cast<std::size_t>(n));
            ::close(sv[0]); ::close(sv[1]);
            const bool ok = resp.rfind("STATUS:OK", 0) == 0;
            if (ok) {
                // which TTL did the daemon pass on?  read the stored chunk's deadline (the chunk id is derived from the payload)
                const auto snap = en::test::NodeTestAccess::store(node).snapshot();
                const i64 left = snap.empty() ? -999 : steady_left(snap.front().expires_at);
                out.put(1); out.put(left); out.put(left);
            } else if (resp.find("ERR_STORE_TTL_INVALID") != std::string::npos) out.put(2);
            else if (resp.find("ERR_STORE_TTL_OUT_OF_RANGE") != std::string::npos) out.put(3);
            else { out.put(-6); for (unsigned char ch : resp.substr(0, 200)) out.put(ch); }
            return;
        }
        out.put(-1);
    });
}
