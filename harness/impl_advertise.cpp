// "advertise" family (C34).  Mode 1: the real is_private_or_reserved_host (anonymous namespace of AdvertiseDiscovery.cpp,
// #included).  Mode 2: a real Node whose NAT discovery is answered through the project's own
// NatTraversalManager::set_test_hooks (the STUN result, or "STUN failed"); start_transport(0) binds an ephemeral port, runs
// coordinate() and refresh_advertised_endpoints(); then config().advertised_endpoints, the candidates, the conflict flag and
// the discovery hints of a manifest made by store_chunk are read back.  The transport port (chosen by the OS) is reported as 0.
#include "common.hpp"
#include "network/AdvertiseDiscovery.cpp"
#include "ephemeralnet/core/Node.hpp"
using hv::In; using hv::Out; using hv::i64;
namespace en = ephemeralnet;
namespace nw = ephemeralnet::network;

static std::pair<std::string, i64> split_endpoint(const std::string& ep) {
    const auto pos = ep.find_last_of(':');
    if (pos == std::string::npos) return {ep, -1};
    return {ep.substr(0, pos), std::strtoll(ep.c_str() + pos + 1, nullptr, 10)};
}

int main() {
    return hv::main_loop([](In& in, Out& out) {
        const i64 md = in.next();
        if (md == 1) {
            const auto h = in.str();
            out.put(nw::is_private_or_reserved_host(h) ? 1 : 0);
            return;
        }
        if (md != 2 && md != 3) { out.put(-1); return; }
        en::Config cfg{};
        cfg.identity_seed = 34u; cfg.relay_enabled = false; cfg.storage_persistent_enabled = false;
        auto mode_of = [](i64 mo) { return mo == 0 ? en::Config::AdvertiseAutoMode::On : mo == 1 ? en::Config::AdvertiseAutoMode::Warn : en::Config::AdvertiseAutoMode::Off; };
        cfg.advertise_auto_mode = mode_of(in.next());
        cfg.advertise_allow_private = in.next() != 0;
        cfg.control_host = in.str();
        cfg.control_port = static_cast<std::uint16_t>(in.next());
        const i64 nm = in.next();
        for (i64 i = 0; i < nm; ++i) {
            en::Config::AdvertisedEndpoint e{}; e.host = in.str(); e.port = static_cast<std::uint16_t>(in.next()); e.manual = true; e.source = "manual";
            cfg.advertised_endpoints.push_back(e);
        }
        const bool has_adv = in.next() != 0; const auto ah = in.str(); const auto apt = static_cast<std::uint16_t>(in.next());
        if (has_adv) { cfg.advertise_control_host = ah; if (apt != 0) cfg.advertise_control_port = apt; }
        in.next();   // the https-echo octet the checker predicted (the model's input)
        bool stun = in.next() != 0; auto sa = in.str();
        i64 mo2 = 0, ap2 = 0; bool stun2 = false; std::string sa2;
        if (md == 3) {
            // entries a previous run left in the configuration as auto-discovered (non-manual): every refresh strips them
            const i64 nst = in.next();
            for (i64 i = 0; i < nst; ++i) {
                en::Config::AdvertisedEndpoint e{}; e.host = in.str(); e.port = static_cast<std::uint16_t>(in.next()); e.manual = false; e.source = "stun";
                cfg.advertised_endpoints.insert(cfg.advertised_endpoints.begin() + static_cast<std::ptrdiff_t>(i % (cfg.advertised_endpoints.size() + 1)), e);
            }
            mo2 = in.next(); ap2 = in.next(); stun2 = in.next() != 0; sa2 = in.str();
        }
        nw::NatTraversalManager::TestHooks hooks{};
        hooks.stun_override = [&]() -> std::optional<nw::NatTraversalManager::StunQueryResult> {
            if (!stun) return std::nullopt;
            nw::NatTraversalManager::StunQueryResult r{}; r.address = sa; r.reported_port = 45000; r.server = "harness"; return r;
        };
        nw::NatTraversalManager::set_test_hooks(&hooks);
        en::PeerId self{}; self[0] = 0x34;
        {
            en::Node node(self, cfg);
            auto observe = [&](std::uint8_t tag) {
                node.start_transport(0);
                const i64 tp = node.transport_port();
                auto port = [&](i64 p) { return p == tp ? 0 : p; };
                const auto& c = node.config();
                out.put(static_cast<i64>(c.advertised_endpoints.size()));
                for (const auto& e : c.advertised_endpoints) { out.bytes(e.host); out.put(port(e.port)); out.put(e.manual ? 1 : 0); }
                out.put(static_cast<i64>(c.auto_advertise_candidates.size()));
                for (const auto& cd : c.auto_advertise_candidates) {
                    out.bytes(cd.host); out.put(port(cd.port));
                    out.put(cd.via == "stun" ? 1 : cd.via == "https-echo" ? 2 : cd.via == "local-fallback" ? 3 : 9);
                }
                out.put(c.auto_advertise_conflict ? 1 : 0);
                en::ChunkId cid{}; cid[0] = 0x34; cid[1] = tag;
                const auto manifest = node.store_chunk(cid, en::ChunkData{1, 2, 3}, std::chrono::seconds(600));
                out.put(static_cast<i64>(manifest.discovery_hints.size()));
                for (const auto& h : manifest.discovery_hints) {
                    const auto [host, p] = split_endpoint(h.endpoint);
                    out.bytes(host); out.put(port(p));
                    out.put(h.scheme == "control" ? 1 : h.scheme == "transport" ? 0 : 9);
                }
                node.stop_transport();
            };
            observe(1);
            if (md == 3) {
                // the operator changes the settings and the transport is started again
                node.config().advertise_auto_mode = mode_of(mo2);
                node.config().advertise_allow_private = ap2 != 0;
                stun = stun2; sa = sa2;
                observe(2);
            }
        }
        nw::NatTraversalManager::set_test_hooks(nullptr);
    }, 60);
}
