// "swarm" family (C22): the real SwarmCoordinator::compute_plan over a real KademliaTable under the harness clock.
#define HV_VIRTUAL_CLOCK
#include "common.hpp"
#include "ephemeralnet/core/SwarmCoordinator.hpp"
using namespace ephemeralnet;
using hv::In; using hv::Out; using hv::i64;

int main() {
    return hv::main_loop([](In& in, Out& out) {
        hv::g_now_ns = 1'000'000'000'000LL;
        // model inputs first: ncand (what the checker expects candidate_peers to yield), labels, threshold, min, target
        in.next();
        const auto labels = in.bytes();
        const i64 thr = in.next(), mn = in.next(), tg = in.next();
        // implementation-only inputs: sample, seed, self, chunk, registered contacts (id, expires in s from now, load fields)
        const i64 sample = in.next(); const i64 seed = in.next(); const i64 total_shares = in.next();
        const PeerId self = in.id32(); const ChunkId chunk = in.id32();
        Config cfg{};
        cfg.swarm_min_providers = static_cast<std::uint16_t>(mn);
        cfg.swarm_target_replicas = static_cast<std::uint16_t>(tg);
        cfg.swarm_candidate_sample = static_cast<std::uint16_t>(sample);
        cfg.identity_seed = static_cast<std::uint32_t>(seed);
        KademliaTable table(self, cfg);
        SwarmPeerLoadMap loads;
        const i64 n = in.next();
        for (i64 i = 0; i < n; ++i) {
            PeerContact c{}; c.id = in.id32(); c.address = "h" + std::to_string(i);
            const i64 life = in.next();
            c.expires_at = std::chrono::steady_clock::now() + std::chrono::seconds(life);
            table.register_peer(c);
            SwarmPeerLoad l{};
            l.active_uploads = static_cast<std::size_t>(in.next()); l.seed_roles = static_cast<std::size_t>(in.next());
            l.is_choked = in.next() != 0; l.reputation = static_cast<int>(in.next()); l.has_reputation = true;
            loads[peer_id_to_string(c.id)] = l;
        }
        const i64 advance = in.next();
        hv::g_now_ns += advance * 1'000'000'000LL;
        protocol::Manifest m{};
        m.chunk_id = chunk; m.threshold = static_cast<std::uint8_t>(thr);
        m.total_shares = static_cast<std::uint8_t>(total_shares);   // independent byte on the wire: need not equal shards.size()
        for (auto lb : labels) { protocol::KeyShard s{}; s.index = lb; m.shards.push_back(s); }
        SwarmCoordinator coord(cfg);
        const auto plan = coord.compute_plan(chunk, m, table, self, loads);
        out.put(static_cast<i64>(plan.assignments.size()));
        for (const auto& a : plan.assignments) out.bytes(a.shard_indices);
        for (const auto& a : plan.assignments) out.raw(a.peer.id);
    });
}
