// "filename" family (C31):
//  1: the directory branch of `eph fetch` (copied verbatim from the current src/main.cpp into c31_fetch.hpp by
//     tools/props/C31.py): manifest filename -> output path below the chosen directory
//  2: the real Node::store_chunk: caller's file name -> filename recorded in the issued manifest
//  3: security::sanitize_filename_hint
#include "common.hpp"
#include "c31_fetch.hpp"
#include "ephemeralnet/core/Node.hpp"
#include "ephemeralnet/security/StoreProof.hpp"
using hv::In; using hv::Out; using hv::i64;
namespace en = ephemeralnet;

static en::Node& node() {
    static en::Node n = [] {
        en::Config cfg{};
        cfg.identity_seed = 7u;
        en::PeerId id{}; id[0] = 0x31;
        return en::Node(id, cfg);
    }();
    return n;
}

int main() {
    return hv::main_loop([](In& in, Out& out) {
        const i64 which = in.next();
        const std::string raw = in.str();
        const std::filesystem::path dir("/tmp/verif-c31-dir/sub");
        std::string name;
        if (which == 1) {
            en::protocol::Manifest m{};
            m.chunk_id[0] = 0xAB;
            m.metadata["filename"] = raw;
            const auto resolved = gen_fetch_resolve(dir, std::optional<en::protocol::Manifest>(m), true);
            const std::string full = resolved.string();
            const std::string prefix = dir.string() + "/";
            const std::string rest = full.rfind(prefix, 0) == 0 ? full.substr(prefix.size()) : full;
            if (rest == en::chunk_id_to_string(m.chunk_id)) { out.put(0); out.put(0); return; }   // fell back to the chunk id
            out.bytes(rest);
            out.put(resolved.parent_path() == dir && resolved.filename().string() == rest ? 1 : 0);
            return;
        } else if (which == 2) {
            en::ChunkId cid{}; cid[0] = 0x42;
            en::ChunkData data{1, 2, 3};
            const auto manifest = node().store_chunk(cid, data, std::chrono::seconds(60), raw);
            const auto it = manifest.metadata.find("filename");
            name = it == manifest.metadata.end() ? std::string{} : it->second;
        } else if (which == 3) {
            const auto r = en::security::sanitize_filename_hint(raw);
            name = r.value_or(std::string{});
        } else { out.put(-1); return; }
        out.bytes(name);
        // what the CLI does with it: resolved_output = destination; resolved_output /= name
        std::filesystem::path resolved = dir;
        resolved /= name;
        out.put(!name.empty() && resolved.parent_path() == dir && resolved.filename().string() == name ? 1 : 0);
    });
}
