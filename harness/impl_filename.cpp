// "filename" family (C31): the fetch and store_chunk sanitize_filename lambdas (extracted from the current
// source into c31_sanitize.hpp by tools/props/C31.py) and security::sanitize_filename_hint.
#include "common.hpp"
#include "c31_sanitize.hpp"
#include "ephemeralnet/security/StoreProof.hpp"
using hv::In; using hv::Out; using hv::i64;

int main() {
    return hv::main_loop([](In& in, Out& out) {
        const i64 which = in.next();
        const std::string raw = in.str();
        std::string name;
        if (which == 1) {
            name = gen_fetch_sanitize(raw);
        } else if (which == 2) {
            std::filesystem::path candidate(raw);
            auto base = gen_store_sanitize_inner(candidate.filename().string());
            if (!base.empty()) { if (base.size() > gen_store_max) base.resize(gen_store_max); }
            name = base;
        } else if (which == 3) {
            const auto r = ephemeralnet::security::sanitize_filename_hint(raw);
            name = r.value_or(std::string{});
        } else { out.put(-1); return; }
        out.bytes(name);
        // what the CLI does with it: resolved_output = destination; resolved_output /= name
        std::filesystem::path dir("/tmp/verif-c31-dir/sub");
        std::filesystem::path resolved = dir;
        resolved /= name;
        out.put(!name.empty() && resolved.parent_path() == dir && resolved.filename().string() == name ? 1 : 0);
    });
}
