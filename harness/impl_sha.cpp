// "sha" family (C08): real Sha256 streaming object, HmacSha256::compute / verify.
#include "common.hpp"
#include "ephemeralnet/crypto/Sha256.hpp"
#include "ephemeralnet/crypto/HmacSha256.hpp"
using namespace ephemeralnet::crypto;
using hv::In; using hv::Out; using hv::i64;

int main() {
    return hv::main_loop([](In& in, Out& out) {
        const i64 mode = in.next();
        if (mode == 1) {
            const i64 n = in.next();
            Sha256 h;
            for (i64 i = 0; i < n; ++i) {
                const auto c = in.bytes();
                hv::TightBuf tb(c);
                h.update(tb.span());
            }
            out.raw(h.finalize());
        } else if (mode == 2) {
            const auto key = in.bytes(); const auto data = in.bytes();
            hv::TightBuf tk(key), td(data);
            out.raw(HmacSha256::compute(tk.span(), td.span()));
        } else if (mode == 3) {
            const auto key = in.bytes(); const auto data = in.bytes(); const auto mac = in.bytes();
            hv::TightBuf tk(key), td(data), tm(mac);
            out.put(HmacSha256::verify(tk.span(), td.span(), tm.span()) ? 1 : 0);
        } else out.put(-1);
    });
}
