// "sha" family (C08): real Sha256 streaming object, HmacSha256::compute / verify.
#include "common.hpp"
#include <algorithm>
#include <span>
#include <vector>
#include "ephemeralnet/crypto/Sha256.hpp"
#include "ephemeralnet/crypto/HmacSha256.hpp"
using namespace ephemeralnet::crypto;
using hv::In; using hv::Out; using hv::i64;

int main() {
    return hv::main_loop([](In& in, Out& out) {
        const i64 mode = in.next();
        if (mode == 1) {
            const i64 n = in.next();
            Sha256 h;
            for (i64 i = 0; i < n; ++i) {
                const auto c = in.bytes();
                hv::TightBuf tb(c);
                h.update(tb.span());
            }
            out.raw(h.finalize());
        } else if (mode == 2) {
            const auto key = in.bytes(); const auto data = in.bytes();
            hv::TightBuf tk(key), td(data);
            out.raw(HmacSha256::compute(tk.span(), td.span()));
        } else if (mode == 3) {
            const auto key = in.bytes(); const auto data = in.bytes(); const auto mac = in.bytes();
            hv::TightBuf tk(key), td(data), tm(mac);
            out.put(HmacSha256::verify(tk.span(), td.span(), tm.span()) ? 1 : 0);
        } else if (mode == 4) {
            // a long message that is not written out in the case: total bytes of the pattern b(i) = (131 i + seed) mod 256, fed in
            // pieces (a multiple of 256, so every full piece is the same buffer); the bit length crosses 2^32 at 2^29 bytes
            const i64 total = in.next(), piece = in.next(), seed = in.next();
            std::vector<std::uint8_t> buf(static_cast<std::size_t>(piece));
            for (std::size_t i = 0; i < buf.size(); ++i) buf[i] = static_cast<std::uint8_t>((131 * i + static_cast<std::size_t>(seed)) & 0xFF);
            Sha256 h;
            for (i64 done = 0; done < total; done += piece)
                h.update(std::span<const std::uint8_t>(buf.data(), static_cast<std::size_t>(std::min<i64>(piece, total - done))));
            out.raw(h.finalize());
        } else out.put(-1);
    });
}
