// second translation unit of the "remote" harness: src/main.cpp (its main renamed), so that the harness installs exactly the
// signal dispositions the daemon installs when it starts serving (install_termination_handlers).
#define main eph_cli_main_unused
#include "main.cpp"
#undef main
void hv_install_daemon_signal_handlers() { install_termination_handlers(); }
