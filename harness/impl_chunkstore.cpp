// "chunkstore" family (C01): level 1 = the real ChunkStore; level 2 = a real Node (store_chunk, fetch_chunk,
// export_chunk_record, handle_request over an adopted socketpair session, stored_chunks, tick) -- both under the
// harness clock, which moves in nanoseconds.
#define HV_VIRTUAL_CLOCK
#include "common.hpp"
#include <sys/socket.h>
#include <map>
#include "ephemeralnet/core/Node.hpp"
#include "ephemeralnet/storage/ChunkStore.hpp"
namespace ephemeralnet::test {
class NodeTestAccess {
public:
    static void request(Node& n, const protocol::RequestPayload& p, const PeerId& s) { n.handle_request(p, s); }
    static bool upload_active(Node& n) { return !n.active_uploads_.empty() || !n.pending_uploads_.empty(); }
    static void clear_uploads(Node& n) { n.active_uploads_.clear(); n.active_uploads_per_peer_.clear(); n.pending_uploads_.clear(); }
    static auto raw_snapshot(Node& n) { return n.chunk_store_.snapshot(); }
    static bool adopt(Node& n, const PeerId& peer, int fd) { return n.sessions_.adopt_outbound_socket(peer, fd, true); }
};
}
using namespace ephemeralnet;
using hv::In; using hv::Out; using hv::i64;
using TA = ephemeralnet::test::NodeTestAccess;

static ChunkId cid(i64 c) { ChunkId id{}; id[0] = static_cast<std::uint8_t>(c & 0xFF); id[1] = static_cast<std::uint8_t>((c >> 8) & 0xFF); id[31] = 0xC1; return id; }
static i64 id_of(const ChunkId& id) { return static_cast<i64>(id[0]) | (static_cast<i64>(id[1]) << 8); }
static i64 left_ns(std::chrono::steady_clock::time_point t) {
    return std::chrono::duration_cast<std::chrono::nanoseconds>(t - std::chrono::steady_clock::now()).count();
}

int main() {
    return hv::main_loop([](In& in, Out& out) {
        hv::g_now_ns = 1'000'000'000'000LL;
        const i64 level = in.next();
        const i64 dflt = in.next(), mn = in.next(), mx = in.next(), ci = in.next();
        Config cfg{};
        cfg.default_chunk_ttl = std::chrono::seconds(dflt);
        cfg.min_manifest_ttl = std::chrono::seconds(mn);
        cfg.max_manifest_ttl = std::chrono::seconds(mx);
        cfg.cleanup_interval = std::chrono::seconds(ci);
        cfg.storage_persistent_enabled = false;
        cfg.identity_seed = 3u; cfg.relay_enabled = false;
        cfg.shard_threshold = 2; cfg.shard_total = 3;
        cfg.upload_max_parallel_transfers = 0; cfg.upload_max_transfers_per_peer = 0;
        std::unique_ptr<ChunkStore> store;
        std::unique_ptr<Node> node;
        PeerId self{}; self[0] = 0x01;
        PeerId peer{}; peer[0] = 0x99;
        int sv[2] = {-1, -1};
        if (level == 1) store = std::make_unique<ChunkStore>(cfg);
        else {
            node = std::make_unique<Node>(self, cfg);
            crypto::Key k{}; k.bytes.fill(0x5a);
            node->register_shared_secret(peer, k);
            if (::socketpair(AF_UNIX, SOCK_STREAM, 0, sv) == 0) TA::adopt(*node, peer, sv[0]);
        }
        auto put_entries = [&](std::vector<std::pair<i64, i64>> v) {
            std::sort(v.begin(), v.end());
            out.put(static_cast<i64>(v.size()));
            for (auto& e : v) { out.put(e.first); out.put(e.second); }
        };
        while (!in.eof()) {
            const i64 k = in.next();
            if (k == 1) {
                const i64 id = in.next(), ttl = in.next(); const auto data = in.bytes();
                if (store) store->put(cid(id), data, std::chrono::seconds(ttl));
                else node->store_chunk(cid(id), data, std::chrono::seconds(ttl));
            } else if (k == 2) {
                const i64 id = in.next();
                const auto r = store ? store->get(cid(id)) : node->fetch_chunk(cid(id));
                if (r) { out.put(1); out.bytes(*r); } else out.put(0);
            } else if (k == 3) {
                const i64 id = in.next();
                const auto r = store ? store->get_record(cid(id)) : node->export_chunk_record(cid(id));
                if (r) {
                    out.put(1); out.put(left_ns(r->expires_at));
                    if (store) out.bytes(r->data);
                    else {   // the node holds ciphertext; the plaintext behind the same record is what fetch_chunk returns
                        const auto plain = node->fetch_chunk(cid(id));
                        if (plain) out.bytes(*plain); else out.put(-4);
                    }
                } else out.put(0);
            } else if (k == 4) {
                const i64 id = in.next();
                if (store) { out.put(store->get_record(cid(id)).has_value() ? 1 : 0); }
                else {
                    protocol::RequestPayload p{}; p.chunk_id = cid(id); p.requester = peer;
                    TA::clear_uploads(*node);
                    TA::request(*node, p, peer);
                    out.put(TA::upload_active(*node) ? 1 : 0);
                    TA::clear_uploads(*node);
                    char buf[65536]; while (::recv(sv[1], buf, sizeof buf, MSG_DONTWAIT) > 0) {}   // drain what was sent to the peer
                }
            } else if (k == 5) {
                std::vector<i64> removed;
                if (store) { for (const auto& id : store->sweep_expired()) removed.push_back(id_of(id)); }
                else {
                    node->tick();
                    for (const auto& key : node->drain_cleanup_notifications()) {
                        if (const auto id = peer_id_from_string(key)) removed.push_back(id_of(*id));   // same 32-byte hex form
                    }
                }
                std::sort(removed.begin(), removed.end());
                out.put(static_cast<i64>(removed.size())); for (auto x : removed) out.put(x);
            } else if (k == 6 || k == 7) {
                std::vector<std::pair<i64, i64>> v;
                if (store) {
                    for (const auto& e : store->snapshot()) {
                        const i64 l = left_ns(e.expires_at);
                        if (k == 7 || l > 0) v.emplace_back(id_of(e.id), l);   // level 1 has no listing of its own: live entries
                    }
                } else if (k == 6) {
                    for (const auto& e : node->stored_chunks()) v.emplace_back(id_of(e.id), left_ns(e.expires_at));
                } else {
                    for (const auto& e : TA::raw_snapshot(*node)) v.emplace_back(id_of(e.id), left_ns(e.expires_at));
                }
                put_entries(std::move(v));
            } else if (k == 8) {
                const i64 d = in.next();
                hv::g_now_ns += d > 0 ? d : 0;
            } else break;
        }
        if (sv[1] >= 0) ::close(sv[1]);
        // The adopted session's receive thread is detached and may still touch the SessionManager after the peer end is
        // closed; the node is therefore kept alive for the rest of the process instead of being destroyed under it.
        if (node) { node->stop_transport(); (void)node.release(); }
    });
}
