"""C26 -- the relay never crashes and releases everything once clients leave."""
import importlib.util
from pathlib import Path

ID = "C26"
FAMILY = "relay"


def _load(name):
    spec = importlib.util.spec_from_file_location(name + "_for_c26", Path(__file__).with_name(name + ".py"))
    mod = importlib.util.module_from_spec(spec)
    spec.loader.exec_module(mod)
    return mod


_c25 = _load("C25")
RULE = ("the real RelayServer on the real EventLoop, built with AddressSanitizer and UBSan (127.0.0.1, ephemeral port), 1..7 TCP "
        "clients: the histories of C25 (registrations, connects, identities, data, disconnects at every stage) plus byte "
        "streams made to hurt: lines of 5000 and 100000 bytes without and with a newline, binary bytes 0..255, NUL bytes, CR LF "
        "and lone CR, empty lines, commands in lower case, REGISTER / CONNECT with 0, 1, 3 arguments, ids of 63, 64, 65 hex "
        "digits and non-hex, identity bytes in fragments of 1, 31, 32, 33, a connector that disconnects after 31 identity "
        "bytes, every order of disconnects of the three parties of a claimed registration. After every action: sessions and "
        "registry entries the server holds; at the end every client disconnects and the harness reads the server's tables, "
        "the event loop's watchers and /proc/self/fd. Oracle: the process ends normally with no sanitizer report and never "
        "hangs; after everyone has left the server holds 0 sessions, 0 registry entries, only the listener (and the "
        "harness's stopper) are watched, the descriptors are the ones held before the first client (epoll, eventfd, "
        "listener), and after the server is destroyed none. non-trivial = a session was closed by the server or malformed "
        "bytes were sent; distinct = distinct outputs")
ASSUMPTIONS = _c25.ASSUMPTIONS + ["memory safety is a statement about the C++ (sanitizer build of the real server), not about the model"]
TRUSTED = _c25.TRUSTED + ["AddressSanitizer / UBSan (g++ 12) as the memory-error oracle", "/proc/self/fd as the descriptor oracle"]
TIMEOUT = 1500
IDS = _c25.IDS


def generate(rng, tier):
    n = {"quick": 200, "search": 300, "thorough": 2500}[tier]
    cases = _c25.generate(rng, tier)[:n // 2]
    for c in cases:
        c["tag"] = "c25-" + c["tag"]
    while len(cases) < n:
        g = _c25.Gen(rng)
        for _ in range(rng.randrange(1, 5)):
            g.connect()
        for _ in range(rng.randrange(3, 25)):
            live = [i for i in range(g.n) if g.state[i] != "closed"]
            if not live or (rng.random() < 0.1 and g.n < 7):
                g.connect(); continue
            i = rng.choice(live)
            r = rng.random()
            if r < 0.12:
                g.ops.append([1, i] + _c25.lp(bytes(rng.choice([65, 0, 255, 32]) for _ in range(rng.choice([5000, 100000]))) + rng.choice([b"", b"\n"])))
            elif r < 0.24:
                g.send(i, bytes(rng.randrange(256) for _ in range(rng.choice([1, 31, 32, 33, 500]))))
            elif r < 0.34:
                g.send(i, rng.choice([b"\r\n", b"\r", b"\n\n\n", b"\x00\n", b"REGISTER\n", b"REGISTER \n", b"CONNECT\n", b"CONNECT a\n",
                                      b"CONNECT a b c\n", b"connect a b\n", b"PONG\r\n", b"PONG extra\n", b"REGISTER " + b"a" * 63 + b"\n",
                                      b"REGISTER " + b"a" * 65 + b"\n", b"REGISTER " + b"g" * 64 + b"\n", b"CONNECT zz " + IDS[0].encode() + b"\n",
                                      b"CONNECT " + IDS[0].encode() + b" " + IDS[0].encode() + b"\n", b"CONNECT  " + IDS[1].encode() + b"  " + IDS[0].encode() + b" \n"]))
            elif r < 0.5:
                g.send(i, f"REGISTER {_c25.spell(rng, rng.choice(IDS))}\n")
            elif r < 0.66:
                s, t = rng.sample(IDS, 2)
                g.send(i, f"CONNECT {s} {t}\n")
                if rng.random() < 0.5:
                    for frag in rng.choice([[32], [1, 31], [31], [31, 1], [33], [16, 16, 5]]):
                        g.ops.append([1, i] + _c25.lp(g.data(i, frag)))
            elif r < 0.8:
                g.send(i, g.data(i, rng.randrange(1, 100)))
            else:
                g.close(i)
        cases.append({"ints": g.ints(), "tag": "hostile"})
    return cases


def judge(case, impl, model):
    if not impl or impl[0] in (-2000, -1000) or impl[0] < 0:
        return {"fail": f"C26|abnormal|{impl[:2]}"}
    ops = _c25.parse_ops(case["ints"])
    try:
        steps, trailer = _c25.parse_out(impl, len(ops))
    except Exception:
        return {"fail": "C26|output-shape"}
    corr = impl[:len(impl) - 3] == model
    if len(trailer) != 5:
        return {"fail": "C26|output-shape", "corr": corr}
    sessions, registry, watchers, fds_server, fds_after = trailer
    if any(st[3] for st in steps):
        return {"fail": "C26|server-hung", "corr": corr}
    if sessions != 0:
        return {"fail": "C26|sessions-left-after-every-client-disconnected", "corr": corr, "nontrivial": True}
    if registry != 0:
        return {"fail": "C26|registry-entries-left-after-every-client-disconnected", "corr": corr, "nontrivial": True}
    if watchers != 2:
        return {"fail": "C26|event-loop-watchers-left-after-every-client-disconnected", "corr": corr, "nontrivial": True}
    if fds_server != 3:
        return {"fail": "C26|client-descriptors-left-open", "corr": corr, "nontrivial": True}
    if fds_after != 0:
        return {"fail": "C26|descriptors-left-after-the-server-was-destroyed", "corr": corr, "nontrivial": True}
    # every action's counts: the server never holds more sessions than clients that are connected
    connected = 0
    closed_by_server = False
    gone = set()
    for op, (cl, sess, reg, hung) in zip(ops, steps):
        if op[0] == "connect":
            connected += 1
        elif op[0] == "close" and op[1] not in gone and op[1] < len(cl):
            gone.add(op[1]); connected -= 1
        if sess > connected:
            return {"fail": "C26|more-sessions-than-connected-clients", "corr": corr, "nontrivial": True}
        if sess < connected:
            closed_by_server = True
        if reg > sess:
            return {"fail": "C26|more-registry-entries-than-sessions", "corr": corr, "nontrivial": True}
    hostile = case.get("tag") == "hostile"
    return {"nontrivial": closed_by_server or hostile, "corr": corr}
