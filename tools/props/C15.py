"""C15 -- protocol messages round-trip through the wire codec."""
import os, sys
sys.path.insert(0, os.path.dirname(__file__))
import _msggen as G

ID = "C15"
FAMILY = "message"
RULE = ("mode 1: a generated message (6 types x uint8 versions x boundary field values; every empty / non-empty combination of "
        "an announce's endpoint, manifest URI and shard list and an empty / one-byte chunk payload for every version class) is encoded and decoded "
        "again by the implementation and by the extracted model; non-trivial = the decode succeeded; distinct = "
        "distinct implementation output lines")
ASSUMPTIONS = ["lengths < 2^32 (wire range)", "LP64 target"]
TRUSTED = ["extraction: ExtrOcamlBasic only", "harness/impl_message.cpp, tools/props/_msggen.py"]


def generate(rng, tier):
    n = {"quick": 400, "search": 600, "thorough": 6000}[tier]
    cases = []
    # systematic: every type x versions 0..6,255
    for kind in range(6):
        for v in [0, 1, 2, 3, 4, 5, 6, 255]:
            m = G.rand_message(rng, kind, v)
            cases.append({"ints": [1] + G.msg_ints(m), "tag": f"sys:k{kind}v{v}"})
    for m, tag in G.minimal_messages(rng):
        cases.append({"ints": [1] + G.msg_ints(m), "tag": tag})
    for i in range(n):
        m = G.rand_message(rng, big=(tier == "thorough" or i % 50 == 0))
        cases.append({"ints": [1] + G.msg_ints(m), "tag": f"rand:k{m['kind']}"})
    # all 0..255 assigned-shard counts for announces at v3
    for cnt in ([0, 1, 254, 255] if tier == "quick" else range(0, 256, 5)):
        m = G.rand_message(rng, 0, 3)
        m["shards"] = G.rbytes(rng, cnt)
        cases.append({"ints": [1] + G.msg_ints(m), "tag": "shards"})
    return cases


def judge(case, impl, model):
    if impl and impl[0] in (-2000, -1000):
        return {"fail": f"C15|abnormal|{impl[:2]}", "nontrivial": True}
    m, _ = G.parse_msg_ints(case["ints"], 1)
    v = min(4, max(1, m["version"]))
    n = impl[0]
    dec = G.split_decoded(impl[1 + n:])
    if dec is None:
        return {"fail": f"C15|roundtrip-none|kind={m['kind']}|v={v}", "nontrivial": True}
    got, _prefix = dec
    if got != G.msg_ints(G.carried(m)):
        return {"fail": f"C15|roundtrip-diff|kind={m['kind']}|v={v}", "nontrivial": True}
    return {"nontrivial": True}


def outcome_class(case, impl):
    return "decoded" if impl and impl[0] >= 0 and impl[1 + impl[0]] == 1 else "other"
