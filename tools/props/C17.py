"""C17 -- manifests round-trip; unrepresentable manifests are refused."""
import os, sys
sys.path.insert(0, os.path.dirname(__file__))
import _mfgen as G

ID = "C17"
FAMILY = "manifest"
RULE = ("mode 1: generated manifests (shards 0..255 and 256..512, metadata/hints/fallbacks 0..256 entries, strings at "
        "255/256 and 65535/65536 (each over-long field both alone and next to a valid sibling, e.g. a 256..65536-byte transport with a short scheme), discovery schemes equal to / differing only in letter case from / a prefix of their transport, negative, sub-second and extreme expiries, empty schemes) are encoded by the real "
        "encode_manifest and decoded again; oracle: representable -> decode(encode m) = norm m (python rendering of "
        "norm), unrepresentable -> std::length_error. non-trivial = encode accepted and decode succeeded, or a refusal of "
        "an over-limit field; distinct = distinct (over-limit class, implementation output)")
ASSUMPTIONS = ["std::map metadata is modelled as a key-sorted association list", "LP64, system_clock in nanoseconds"]
TRUSTED = ["extraction: ExtrOcamlBasic only", "harness/impl_manifest.cpp, tools/props/_mfgen.py"]
TIMEOUT = 1800


def generate(rng, tier):
    n = {"quick": 120, "search": 200, "thorough": 450}[tier]
    cases = []
    for over in G.OVERS:
        for _ in range(2 if tier == "quick" else 4):
            m = G.rand_manifest(rng, over=over)
            cases.append({"ints": [1] + G.manifest_ints(m), "tag": "over:" + over})
    for i in range(n):
        m = G.rand_manifest(rng, big=(i % 25 == 0))
        cases.append({"ints": [1] + G.manifest_ints(m), "tag": "valid"})
    for cnt in [254, 255, 256]:
        m = G.rand_manifest(rng)
        m["shards"] = [{"index": j % 256, "value": G.rb(rng, 32)} for j in range(cnt)]
        cases.append({"ints": [1] + G.manifest_ints(m), "tag": f"shards{cnt}"})
    return cases


def _reparse(ints):
    """manifest dict from the wire ints (so corpus / replay cases are judged too)."""
    p = [1]

    def take(n):
        r = ints[p[0]:p[0] + n]; p[0] += n; return list(r)

    def nx():
        return take(1)[0]

    def lpb():
        return take(nx())

    m = {"chunk_id": take(32), "hash": take(32), "nonce": take(12), "threshold": nx(), "total": nx()}
    hi, lo = nx(), nx()
    m["expires_ns"] = hi * G.B + lo
    m["shards"] = [{"index": nx(), "value": take(32)} for _ in range(nx())]
    m["meta"] = {}
    for _ in range(nx()):
        k = bytes(lpb()); v = lpb()
        m["meta"].setdefault(k, v)
    m["hints"] = [{"scheme": lpb(), "transport": lpb(), "endpoint": lpb(), "priority": nx()} for _ in range(nx())]
    m["token_bits"] = nx(); m["advisory"] = lpb()
    m["attest"] = take(32) if nx() else None
    m["fallbacks"] = [{"uri": lpb(), "priority": nx()} for _ in range(nx())]
    return m


def judge(case, impl, model):
    if impl and impl[0] == -2000:
        return {"fail": f"C17|crash|kind={impl[1]}"}
    m = _reparse(case["ints"])
    rep = G.representable(m)
    if not rep:
        if impl[:2] == [-1000, 2]:
            return {"nontrivial": True}
        return {"fail": "C17|unrepresentable-not-refused|" + (case.get("tag") or "").replace("over:", ""), "nontrivial": True}
    if impl[0] != 0:
        return {"fail": f"C17|representable-refused|{impl[:2]}"}
    n = impl[1]
    rest = impl[2 + n:]
    if rest[:1] != [0]:
        return {"fail": f"C17|own-uri-rejected|{rest[:2]}"}
    if rest[1:] != G.manifest_ints(G.normalised(m)):
        return {"fail": "C17|roundtrip-diff"}
    return {"nontrivial": True}


def outcome_class(case, impl):
    return "refused" if impl and impl[0] == -1000 else ("roundtrip" if impl and impl[0] == 0 else "other")
