"""C23 -- upload concurrency limits hold and slots are always released."""
ID = "C23"
FAMILY = "upload"
RULE = ("a real Node (virtual clock) with upload_max_parallel_transfers 0..3, upload_max_transfers_per_peer 0..3, transfer "
        "time-out 0/5/30 s, reconsider interval 0/2 s and 3..5 peers (with a live session over a socketpair, with a session key "
        "but no live session, or without a key) receives 5..40 operations: chunk requests for servable and unservable chunks "
        "(30% of them repeat an upload that is still in flight), acknowledgements (of in-flight uploads, duplicates, spurious "
        "ones), ticks and clock advances (0.1 s .. just below / at / above the time-out); 'flood' sequences in which one peer asks "
        "for 3..6 different chunks at once (per-peer limit 0..3, global 0/3/8), so that requests queue behind its limit, and its "
        "slots are then released by acknowledgements in any order or by several uploads timing out in one pass. After every operation the frames the "
        "node put on the wire are read from the far ends, decrypted and decoded (CHUNK / negative ACK per peer and chunk) and "
        "the two bookkeeping maps are read through the friend class. Oracle (independent of the model, from the frames): the "
        "uploads in flight -- CHUNK sent, not acknowledged since, younger than the time-out -- never exceed the global or "
        "per-peer limit, nor do the node's own counters; a request by a peer with a live session for an unservable chunk is "
        "answered by exactly one negative ACK; whenever none of a peer's uploads is outstanding (each acknowledged, or timed "
        "out with a scheduling pass since) its slot counter is zero. non-trivial = a sequence with a repeated in-flight "
        "request or a time-out; distinct = distinct implementation outputs")
ASSUMPTIONS = ["which chunks are servable and which peers hold a key / a live session are fixed per run (the environment of the "
               "model); servability changing over time is C01/C03",
               "sends to a live session succeed (socketpair with a 4 MiB buffer, frames of a few dozen bytes)"]
TRUSTED = ["extraction: ExtrOcamlBasic only", "harness/impl_upload.cpp (own NodeTestAccess friend, adopted socketpair sessions, "
           "frames decrypted with the node's session key), link-time replacement of the clocks"]
TIMEOUT = 900


def mk(cfg, kinds, nserv, ops, tag):
    ints = list(cfg) + [len(kinds)] + list(kinds) + [nserv]
    for o in ops:
        ints += list(o)
    return {"ints": ints, "tag": tag}


def generate(rng, tier):
    n = {"quick": 140, "search": 250, "thorough": 1500}[tier]
    cases = []
    # the historical failure: per-peer limit 2, the same (peer, chunk) requested twice in flight, acknowledged twice
    cases.append(mk((3, 2, 30, 2), [1, 1], 3, [(0, 1, 1), (0, 1, 1), (1, 1, 1), (1, 1, 1), (2, 0, 0), (0, 1, 2), (0, 1, 3), (0, 1, 1)], "repeat-in-flight"))
    cases.append(mk((1, 1, 5, 0), [1, 1, 1], 3, [(0, 1, 1), (0, 2, 1), (0, 3, 2), (3, 5000, 0), (2, 0, 0), (1, 2, 1), (1, 3, 2)], "timeout-frees-slot"))
    # one peer floods: reaches its per-peer limit with more requests queued, then slots are released by acknowledgements or
    # by several of its uploads timing out in the same pass
    for _ in range(n // 3):
        per = rng.choice([1, 1, 2, 3, 0])
        cfg = (rng.choice([0, 3, 3, 8]), per, rng.choice([5, 30]), rng.choice([0, 2]))
        np_ = 3
        kinds = [1, 1, 1]
        p = rng.randrange(1, 4)
        chunks = rng.sample(range(1, 7), rng.randrange(3, 7))
        ops = [(0, p, c) for c in chunks]
        if rng.random() < 0.3:
            ops.insert(rng.randrange(len(ops)), (0, rng.choice([q for q in (1, 2, 3) if q != p]), rng.randrange(1, 7)))
        if rng.random() < 0.5:
            ops += [(3, cfg[2] * 1000 + rng.choice([0, 1, 500]), 0), (2, 0, 0)]
            ops += [(0, p, c) for c in rng.sample(range(1, 7), 2)]
        order = chunks[:]
        rng.shuffle(order)
        for c in order[:rng.randrange(1, len(order) + 1)]:
            ops.append((1, p, c))
            if rng.random() < 0.3:
                ops.append((2, 0, 0))
        ops += [(3, cfg[2] * 1000, 0), (2, 0, 0), (2, 0, 0)]
        cases.append(mk(cfg, kinds, 6, ops, "flood"))
    for _ in range(n):
        cfg = (rng.choice([0, 1, 2, 3, 3]), rng.choice([0, 1, 2, 2, 3]), rng.choice([0, 5, 30]), rng.choice([0, 2]))
        np_ = rng.choice([3, 4, 5])
        kinds = [1, 1] + [rng.choice([1, 1, 1, 2, 0]) for _ in range(np_ - 2)]
        nserv = 3
        inflight = []
        ops = []
        for _ in range(rng.choice([5, 12, 25, 40])):
            r = rng.random()
            if r < 0.5:
                if inflight and rng.random() < 0.3:
                    p, c = rng.choice(inflight)
                else:
                    p, c = rng.randrange(1, np_ + 1), rng.choice([1, 1, 2, 2, 3, 4])
                ops.append((0, p, c))
                if c <= nserv and kinds[p - 1] == 1:
                    inflight.append((p, c))
            elif r < 0.75:
                if inflight and rng.random() < 0.8:
                    p, c = rng.choice(inflight)
                    if rng.random() < 0.7:
                        inflight.remove((p, c))
                else:
                    p, c = rng.randrange(1, np_ + 1), rng.randrange(1, 5)
                ops.append((1, p, c))
            elif r < 0.85:
                ops.append((2, 0, 0))
            else:
                to = cfg[2] * 1000
                ops.append((3, rng.choice([100, 1000, 2000, 2001, max(1, to - 1), max(1, to), to + 1, 31000]), 0))
        cases.append(mk(cfg, kinds, nserv, ops, "sequence"))
    return cases


def judge(case, impl, model):
    ints = case["ints"]
    if impl and impl[0] in (-2000, -1000):
        return {"fail": f"C23|abnormal|{impl[:2]}"}
    if impl and impl[0] in (-8, -9, -10):
        return {"fail": f"C23|setup-failed|{impl[0]}"}
    mx, per, timeout, _rc, np_ = ints[:5]
    kinds = ints[5:5 + np_]
    nserv = ints[5 + np_]
    ops = [tuple(ints[i:i + 3]) for i in range(6 + np_, len(ints), 3)]
    now = 0
    sent = {}            # (p, c) -> time of the latest CHUNK frame, not acknowledged since
    i = 0
    nontrivial = False
    for code, a, b in ops:
        if i >= len(impl):
            return {"fail": "C23|output-shape"}
        f = impl[i]; i += 1
        if f < 0 or i + 3 * f + 2 + np_ > len(impl):
            return {"fail": "C23|output-shape"}
        frames = [tuple(impl[i + 3 * k:i + 3 * k + 3]) for k in range(f)]
        i += 3 * f
        active, _pending = impl[i], impl[i + 1]
        counters = impl[i + 2:i + 2 + np_]
        i += 2 + np_
        if any(k < 0 or k > 2 for k, _, _ in frames):
            return {"fail": "C23|undecodable-frame"}
        ran_scheduler = False
        if code == 3:
            now += max(0, a) * 10 ** 6
        elif code == 1:
            sent.pop((a, b), None)
            ran_scheduler = True
        elif code == 2:
            ran_scheduler = True
        elif code == 0:
            p, c = a, b
            kind = kinds[p - 1] if 1 <= p <= np_ else 0
            if kind == 1 and not (1 <= c <= nserv):
                if frames.count((0, p, c)) != 1:
                    return {"fail": "C23|no-negative-ack-for-unservable-chunk"}
            if kind != 0 and 1 <= c <= nserv:
                ran_scheduler = True
                if (p, c) in sent:
                    nontrivial = True
        if ran_scheduler and timeout > 0:
            for k in [k for k, t in sent.items() if now - t >= timeout * 10 ** 9]:
                del sent[k]
                nontrivial = True
        for k, p, c in frames:
            if k == 1:
                sent[(p, c)] = now
        # uploads certainly in flight: sent, not acknowledged, younger than the time-out
        flying = [k for k, t in sent.items() if timeout <= 0 or now - t < timeout * 10 ** 9]
        if mx > 0 and (len(flying) > mx or active > mx):
            return {"fail": "C23|global-upload-limit-exceeded", "nontrivial": nontrivial}
        for p in range(1, np_ + 1):
            mine = [k for k in flying if k[0] == p]
            if per > 0 and (len(mine) > per or counters[p - 1] > per):
                return {"fail": "C23|per-peer-upload-limit-exceeded", "nontrivial": nontrivial}
            if not [k for k in sent if k[0] == p] and counters[p - 1] != 0:
                return {"fail": "C23|slot-not-released-after-all-uploads-ended", "nontrivial": nontrivial}
    return {"nontrivial": nontrivial}


def outcome_class(case, impl):
    return "frames" if impl and any(x == 1 for x in impl[:4]) else "quiet-start"
