"""C27 -- a configured control token gates STORE, FETCH and STOP."""
ID = "C27"
FAMILY = "control"
RULE = ("mode 3: a real Node behind the real ControlServer::Impl::handle_client (socketpair), daemon token absent / 'secret' / "
        "empty / 64 bytes; requests STORE, FETCH streamed to the client (for a manifest the node has never seen), FETCH "
        "written to a daemon-side OUT path, STOP; TOKEN header absent, exact, wrong, a prefix, one byte longer, other "
        "letter case, empty, with surrounding blanks, the token followed by 1..1024 more bytes (256, 512 included), cut short, "
        "one byte changed at either end, doubled; configured tokens of 1, 255, 256, 257, 300 bytes; TOKEN right after COMMAND "
        "or as the last header; FETCH to an OUT path also with a non-streaming STREAM header (0, no, empty, daemon). Observed besides the response: stored chunks, registered manifests "
        "(friend class), the OUT file, the stop callback and the transport-stopped flag. Oracle: with a configured token, a "
        "request without exactly that token gets an authentication error and NONE of those changed; with the exact token (or "
        "no configured token) the command takes effect. non-trivial = a configured token; distinct = distinct outputs")
ASSUMPTIONS = ["what happens after the gate (TTL, PoW, rate limit, chunk present) is C28 / C02 / C19; here the later checks are made to pass"]
TRUSTED = ["extraction: ExtrOcamlBasic only", "harness/impl_control.cpp (#include of ControlServer.cpp, private made public, own NodeTestAccess friend)"]
TIMEOUT = 900


def lp(b):
    return [len(b)] + list(b)


def opt(b):
    return [0] if b is None else [1] + lp(b)


def generate(rng, tier):
    cases = []
    conf = [None, b"secret", b"", b"T" * 64, b"sec ret:1"]
    for c in conf:
        pres = [None, b"", b"wrong", b"secret", b"secre", b"secrets", b"SECRET", b" secret", b"secret ", b"T" * 64, b"T" * 63, b"sec ret:1"]
        if c is not None:
            pres.append(c)
        for p in pres:
            for cmd in range(4):
                cases.append({"ints": [3] + opt(c) + opt(p) + [cmd], "tag": "gate"})
        if c:
            # the exact token followed by k more bytes (also k = 256, 512: a length difference that vanishes in 8 bits), the
            # token cut short, one byte changed at either end, TOKEN as the last header, non-streaming STREAM values with OUT
            more = [c + b"x" * k for k in (1, 2, 16, 64, 128, 255, 256, 257, 512, 768, 1024)]
            more += [c[:k] for k in range(0, len(c), max(1, len(c) // 4))]
            more += [bytes([c[0] ^ 1]) + c[1:], c[:-1] + bytes([c[-1] ^ 0x80]), c[::-1], c + c, c]
            for p in more:
                cmd = rng.randrange(4)
                cases.append({"ints": [3] + opt(c) + opt(p) + [cmd, rng.randrange(2), rng.randrange(5)], "tag": "gate-lengths"})
                cases.append({"ints": [3] + opt(c) + opt(p) + [2, 1, rng.randrange(1, 5)], "tag": "gate-out-nostream"})
    for ln in (1, 255, 256, 257, 300):
        c = bytes(rng.randrange(33, 127) for _ in range(ln))
        for p in (c, c[:-1], c + b"y", c + b"y" * 256, c[:1], c[:ln - 256] if ln > 256 else b""):
            for cmd in range(4):
                cases.append({"ints": [3] + opt(c) + opt(p) + [cmd, cmd % 2, 0], "tag": "gate-long-token"})
    return cases


def judge(case, impl, model):
    ints = case["ints"]
    if impl and impl[0] in (-2000, -1000):
        return {"fail": f"C27|abnormal|{impl[:2]}"}
    p = 1
    def ropt():
        nonlocal p
        if ints[p] == 0:
            p += 1; return None
        n = ints[p + 1]; b = bytes(ints[p + 2:p + 2 + n]); p += 2 + n; return b
    conf = ropt(); pres = ropt(); cmd = ints[p]
    okf, auth, effect = impl
    # the header value as the daemon sees it: the line up to LF with CR dropped (a blank-surrounded token is another token)
    authorized = conf is None or (pres is not None and pres == conf)
    name = ["STORE", "FETCH-stream", "FETCH-out", "STOP"][cmd]
    res = {"corr": model is not None and impl[:2] == model, "nontrivial": conf is not None}
    if not authorized:
        if effect:
            res["fail"] = f"C27|unauthenticated-{name}-took-effect"
        elif not auth or okf:
            res["fail"] = f"C27|unauthenticated-{name}-not-refused-with-auth-error"
    else:
        if auth:
            res["fail"] = f"C27|authenticated-{name}-refused"
        elif not effect:
            res["fail"] = f"C27|authenticated-{name}-had-no-effect"
    return res
