"""C06 -- provider lookups return exactly the live, non-withdrawn providers."""
ID = "C06"
FAMILY = "provider"
RULE = ("operation histories (add / withdraw / find / sweep / advance) over 1..4 chunks and 2..30 peers run against the "
        "real KademliaTable under the link-time virtual clock: TTLs -3..3000 s chosen so that no two announcements share "
        "an expiry, clock steps 0..1500 s, 5..120 operations, bursts of more than 20 providers for one chunk, short-TTL "
        "announcements immediately before a sweep. Oracle (independent of the model, python): a history-level reference "
        "that never deletes anything -- a provider is reported iff its latest announcement for the chunk is later than any "
        "withdrawal, has not expired, and it was not evicted by the 20-cap (evicted = smallest expiry at the moment the "
        "21st is added) -- every find must return exactly that set with those expiries. non-trivial = history contains a "
        "find that returns a provider after a sweep or after an expiry; distinct = distinct implementation outputs")
ASSUMPTIONS = ["no two announcements of one chunk expire in the same second (std::sort's order of ties is unspecified)",
               "clock in whole seconds; only the provider table is modelled here (buckets: C07)"]
TRUSTED = ["extraction: ExtrOcamlBasic only", "harness/impl_provider.cpp, link-time replacement of steady_clock::now"]
TIMEOUT = 600


def gen_history(rng, nops):
    chunks = rng.choice([1, 2, 4])
    peers = rng.choice([2, 5, 25, 30])
    now = 1000
    used = set()
    ops = []
    for _ in range(nops):
        r = rng.random()
        if r < 0.45:
            c, p = rng.randrange(chunks), rng.randrange(peers)
            for _ in range(50):
                ttl = rng.choice([0, -3, 1, 2, 5, 60, rng.randrange(1, 3000)])
                if (c, now + ttl) not in used:
                    break
                ttl = rng.randrange(1, 100000)
            used.add((c, now + ttl))
            ops += [[1, c, p, ttl]]
        elif r < 0.55:
            ops += [[2, rng.randrange(chunks), rng.randrange(peers)]]
        elif r < 0.75:
            ops += [[3, rng.randrange(chunks)]]
        elif r < 0.87:
            ops += [[4]]
        else:
            dt = rng.choice([0, 1, 2, 5, 59, 60, 61, rng.randrange(1500)])
            now += dt
            ops += [[5, dt]]
    return ops


def generate(rng, tier):
    n = {"quick": 250, "search": 500, "thorough": 5000}[tier]
    cases = []
    # the historical failure: a short-lived second provider, then a sweep
    cases.append({"ints": [1, 0, 0, 1000, 1, 0, 1, 0, 4, 3, 0], "tag": "short-then-sweep"})
    cases.append({"ints": [1, 0, 0, 1000, 1, 0, 1, 5, 5, 5, 4, 3, 0, 5, 994, 3, 0, 5, 1, 3, 0], "tag": "short-then-sweep"})
    for i in range(n):
        ops = gen_history(rng, rng.choice([5, 12, 40, 120]))
        if i % 10 == 0:   # burst over the cap
            c = 0
            burst = []
            for p in range(rng.choice([20, 21, 25, 30])):
                burst += [[1, c, p, 100 + 7 * p + (i % 5)]]
            rng.shuffle(burst)
            ops = burst + [[3, c]] + ops + [[3, c]]
        flat = [x for o in ops for x in o] + [3, 0, 4, 3, 0]
        if has_tie(flat):
            continue
        cases.append({"ints": flat, "tag": "history"})
    return cases


def has_tie(ints):
    """two announcements of one chunk with the same absolute expiry: outside the stated assumption (std::sort ties)"""
    i, now, seen = 0, 1000, set()
    size = {1: 4, 2: 3, 3: 2, 4: 1, 5: 2}
    while i < len(ints) and ints[i] in size:
        if ints[i] == 1:
            k = (ints[i + 1], now + ints[i + 3])
            if k in seen:
                return True
            seen.add(k)
        elif ints[i] == 5:
            now += max(0, ints[i + 1])
        i += size[ints[i]]
    return False


def reference(ints):
    """history-level oracle: expected outputs of the find ops (sweep outputs are not predicted: None)"""
    i, now = 0, 1000
    entries = {}   # chunk -> {peer: exp}
    out = []
    while i < len(ints):
        k = ints[i]
        if k == 1:
            c, p, ttl = ints[i + 1:i + 4]; i += 4
            e = entries.setdefault(c, {})
            # entries that already expired may or may not have been purged by the implementation: they can only lose
            e.pop(p, None)
            e[p] = now + ttl
            if len(e) > 20:
                # the implementation purges lazily; evict smallest expiry among what it may hold.  Expired entries are
                # always smaller than live ones, so dropping all expired first never changes the live result.
                livee = {q: x for q, x in e.items() if x > now}
                if len(livee) > 20:
                    victim = min(livee, key=lambda q: livee[q])
                    del livee[victim]
                # keep expired ones out: they are never reported again (time is monotone)
                entries[c] = livee
        elif k == 2:
            c, p = ints[i + 1:i + 3]; i += 3
            entries.get(c, {}).pop(p, None)
        elif k == 3:
            c = ints[i + 1]; i += 2
            livee = sorted((q, x) for q, x in entries.get(c, {}).items() if x > now)
            out.append([len(livee)] + [v for q, x in livee for v in (q, x)])
        elif k == 4:
            i += 1
            out.append(None)
        elif k == 5:
            now += max(0, ints[i + 1]); i += 2
        else:
            break
    return out


def judge(case, impl, model):
    if impl and impl[0] == -2000:
        return {"fail": f"C06|crash|kind={impl[1]}"}
    if impl and impl[0] == -1000:
        return {"fail": f"C06|exception|class={impl[1]}"}
    if has_tie(case["ints"]):
        # outside the assumption (equal expiries: the order std::sort gives ties is unspecified): not judged
        return {"corr": True, "nontrivial": False}
    exp = reference(case["ints"])
    pos = 0
    saw_sweep = False
    nontrivial = False
    for e in exp:
        if e is None:
            pos += 1
            saw_sweep = True
            continue
        got = impl[pos:pos + 1 + 2 * (impl[pos] if pos < len(impl) else 0)]
        if got != e:
            missing = len(e) > len(got)
            return {"fail": "C06|find-" + ("lost-live-provider" if missing else "wrong-set") + ("|after-sweep" if saw_sweep else ""),
                    "nontrivial": True}
        if saw_sweep and e[0] > 0:
            nontrivial = True
        pos += len(e)
    return {"nontrivial": nontrivial}


def shrink(case):
    """drop one operation at a time"""
    ints = case["ints"]
    ops, i = [], 0
    size = {1: 4, 2: 3, 3: 2, 4: 1, 5: 2}
    while i < len(ints) and ints[i] in size:
        ops.append(ints[i:i + size[ints[i]]]); i += size[ints[i]]
    for j in range(len(ops)):
        yield {"ints": [x for k, o in enumerate(ops) if k != j for x in o], "tag": "shrunk"}


def outcome_class(case, impl):
    return "ops<=20" if len(case["ints"]) <= 60 else "ops>20"
