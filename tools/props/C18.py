"""C18 -- manifest decoding is total and free of undefined behaviour."""
import os, sys
sys.path.insert(0, os.path.dirname(__file__))
import _mfgen as G

ID = "C18"
FAMILY = "manifest"
RULE = ("mode 2: strings given to the real decode_manifest under ASan+UBSan: valid URIs of versions 1..4 with the "
        "64-bit expiry field in {0, 2^31, 9223372036, 9223372037, 2^63-1, 2^63, 2^64-9223372036, 2^64-9223372037, 2^64-1, "
        "random}, truncation at every payload offset, every version byte, corrupted base64 ('=' anywhere, illegal "
        "characters, length not a multiple of 4), wrong scheme, count/length bytes replaced. Outcome classes: manifest / "
        "invalid_argument / other exception / sanitizer abort / hang. non-trivial = has the eph:// scheme and valid "
        "base64; distinct = distinct implementation outputs")
ASSUMPTIONS = ["absence of UB in the compiled decoder is observed by ASan/UBSan on the explored inputs; the proof "
               "covers the bounds and range logic of the model", "LP64, system_clock in nanoseconds"]
TRUSTED = ["extraction: ExtrOcamlBasic only", "harness/impl_manifest.cpp, tools/props/_mfgen.py", "g++ 12 ASan+UBSan"]
TIMEOUT = 1800

EXP = [0, 1, 2 ** 31, 9223372035, 9223372036, 9223372037, 2 ** 40, 2 ** 63 - 1, 2 ** 63, 2 ** 63 + 1,
       2 ** 64 - 9223372037, 2 ** 64 - 9223372036, 2 ** 64 - 9223372035, 2 ** 64 - 2, 2 ** 64 - 1]


def small_manifest(rng):
    m = G.rand_manifest(rng)
    m["shards"] = m["shards"][:2]
    m["meta"] = dict(list(m["meta"].items())[:2])
    for k in list(m["meta"]):
        m["meta"][k] = m["meta"][k][:3]
    m["hints"] = [dict(h, endpoint=h["endpoint"][:4], scheme=h["scheme"][:3], transport=h["transport"][:3]) for h in m["hints"][:2]]
    m["fallbacks"] = [dict(f, uri=f["uri"][:4]) for f in m["fallbacks"][:2]]
    m["advisory"] = m["advisory"][:5]
    for k in list(m["meta"]):
        if len(k) > 4:
            m["meta"][k[:4]] = m["meta"].pop(k)
    return m


def generate(rng, tier):
    n = {"quick": 150, "search": 300, "thorough": 2500}[tier]
    cases = []

    def add(uri, tag):
        cases.append({"ints": [2] + G.lp(uri), "tag": tag})

    add([], "tiny"); add(list(b"eph://"), "tiny"); add(list(b"eph:/"), "tiny"); add(list(b"http://AAAA"), "scheme")
    add(list(b"eph://===="), "b64"); add(list(b"eph://A==="), "b64"); add(list(b"eph://AA=A"), "b64"); add(list(b"eph://A"), "b64")
    # expiry extremes on every version
    for v in [1, 2, 3, 4]:
        for e in EXP:
            m = small_manifest(rng)
            add(G.to_uri(G.py_payload(m, v, expires_u64=e)), f"expiry:v{v}")
    # every truncation offset of one small manifest per version; every version byte
    for v in [1, 2, 3, 4]:
        m = small_manifest(rng)
        pl = G.py_payload(m, v)
        for cut in range(len(pl) + 1):
            add(G.to_uri(pl[:cut]), f"trunc:v{v}")
    # the same for manifests in which every optional section is populated (metadata, discovery hints, attestation, two or
    # three fallback hints), at all three base64 alignments: a read one byte past the decoded payload is only visible to the
    # sanitizer when the decoded length is a multiple of 3 (no spare capacity), so the tail is shifted by 0, 1 and 2 bytes
    for v in [3, 4]:
        m = small_manifest(rng)
        while len(m["fallbacks"]) < 2 or not m["hints"] or not m["meta"]:
            m = small_manifest(rng)
        for pad in range(3):
            m2 = dict(m); m2["advisory"] = list(m["advisory"]) + [120] * pad
            pl = G.py_payload(m2, v)
            for cut in range(85, len(pl) + 1):
                add(G.to_uri(pl[:cut]), f"trunc-full:v{v}")
    m = small_manifest(rng)
    pl = G.py_payload(m, 4)
    for vb in (range(256) if tier != "quick" else [0, 1, 2, 3, 4, 5, 6, 127, 255]):
        add(G.to_uri([vb] + pl[1:]), "versionbyte")
    for i in range(n):
        v = rng.choice([1, 2, 3, 4, 4, 4])
        m = G.rand_manifest(rng) if rng.random() < 0.5 else small_manifest(rng)
        pl = G.py_payload(m, v)
        r = rng.random()
        if r < 0.3:
            add(G.to_uri(pl), f"valid:v{v}")
        elif r < 0.6:
            # overwrite a byte after the fixed header with an extreme count / length
            if len(pl) > 88:
                pl[rng.randrange(85, len(pl))] = rng.choice([0, 1, 2, 127, 128, 254, 255])
            add(G.to_uri(pl), "countbyte")
        elif r < 0.8:
            uri = G.to_uri(pl)
            for _ in range(rng.randrange(1, 4)):
                j = rng.randrange(len(uri))
                uri[j] = rng.choice([61, 61, 43, 47, 45, 95, 0, 10, 32, 128, 255, rng.randrange(256)])
            add(uri, "b64-corrupt")
        elif r < 0.9:
            uri = G.to_uri(pl)
            add(uri[:rng.randrange(0, len(uri))], "uri-trunc")
        else:
            add(G.to_uri(G.rb(rng, rng.choice([0, 1, 87, 88, 89, 120, 121, 200]))), "random-payload")
    return cases


def judge(case, impl, model):
    if impl and impl[0] == -2000:
        return {"fail": f"C18|crash|kind={impl[1]}"}
    if impl and impl[0] == -1000 and impl[1] != 1:
        return {"fail": f"C18|exception-class|{impl[1]}"}
    ints = case["ints"]
    uri = bytes(ints[2:2 + ints[1]])
    nontrivial = uri.startswith(b"eph://") and (impl[0] == 0 or len(uri) > 6)
    return {"nontrivial": nontrivial}


def outcome_class(case, impl):
    if not impl:
        return "empty"
    return {0: "manifest", -1000: "invalid_argument" if impl[1:2] == [1] else "other-exception", -2000: "crash"}.get(impl[0], "other")
