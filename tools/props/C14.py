"""C14 -- transport sessions deliver exactly what was sent, within the size limit."""
import struct

ID = "C14"
FAMILY = "transport"
MAX = 1048576
RULE = ("two real SessionManagers joined by a socketpair both adopt as a live session under one random key. mode 1: 1..12 "
        "payloads of 0, 1, 63, 64, 65, 127, 128, 4096, 65535, 65536, exactly 1 MiB, 1 MiB + 1, 2 MiB and random lengths (pattern "
        "bytes) go through SessionManager::send back to back, the frame nonces scripted through a link-time "
        "std::random_device; B's message handler records what arrives. mode 3: one send whose frame the harness reads off the "
        "socket itself (nonce | length | ChaCha20 body, nothing more). In a third of the mode-1 sequences both ends register a new "
        "session key for the live session between messages. mode 4: four threads send 8..60 messages at the same time; the "
        "multiset of delivered payloads is compared. mode 2: the harness writes byte streams to B itself: "
        "well-formed frames (built by the checker's own python ChaCha20) followed by a frame announcing 1 MiB + 1, 2^31, 2^32-1 "
        "with or without bytes after it, frames cut inside nonce / length / body, empty frames, garbage. Oracle "
        "(independent of the model): every payload of at most 1 MiB is delivered exactly once, byte for byte (length, "
        "checksum, first bytes) and in send order, nothing else is delivered; payloads above 1 MiB are not sent; after an "
        "oversized length nothing further is delivered and the session ends. non-trivial = a sequence with more than one "
        "message, a boundary size or an oversized frame; distinct = distinct outputs")
ASSUMPTIONS = ["the byte stream between the ends is one sequence (stream socket; recv_all reassembles any segmentation)",
               "std::random_device is an input (the frame nonce); that nonces are fresh is a property of the platform's generator",
               "wire confidentiality (ChaCha20 under the session key) is C09's theorem; here the frame body is apply(key, nonce, payload, 0)"]
TRUSTED = ["extraction: ExtrOcamlBasic only", "harness/impl_transport.cpp (link-time std::random_device, two SessionManagers, socketpair)",
           "python ChaCha20 in tools/props/C11.py as frame builder"]
TIMEOUT = 1200


def _chacha():
    import importlib.util
    import pathlib
    spec = importlib.util.spec_from_file_location("c11_for_c14", pathlib.Path(__file__).with_name("C11.py"))
    mod = importlib.util.module_from_spec(spec)
    spec.loader.exec_module(mod)
    return mod.chacha


def pattern(ln, seed):
    return bytes((seed + 7 * i + i // 256) % 256 for i in range(ln))


def checksum(b):
    a = 0
    for x in b:
        a = (a * 31 + x + 1) % 1000000007
    return a


def lp(b):
    return [len(b)] + list(b)


def generate(rng, tier):
    n = {"quick": 60, "search": 100, "thorough": 600}[tier]
    chacha = _chacha()
    cases = []
    sizes = [0, 1, 63, 64, 65, 127, 128, 129, 4096, 65535, 65536]

    def m1(msgs, key, tag, rekey=False):
        ints = [1] + key + [len(msgs)]
        for ln, seed in msgs:
            ints += [ln, seed] + [rng.randrange(256) for _ in range(12)]
            if rekey and rng.random() < 0.3:
                ints += [1] + [rng.randrange(256) for _ in range(32)]
            else:
                ints += [0]
        return {"ints": ints, "tag": tag}
    key = [rng.randrange(256) for _ in range(32)]
    cases.append(m1([(MAX, 5)], key, "one-mib"))
    cases.append(m1([(MAX + 1, 5), (3, 1)], key, "over-limit"))
    cases.append(m1([(10, 1), (2 * MAX, 9), (MAX, 2), (0, 0), (7, 3)], key, "mixed-big"))
    for _ in range(n):
        key = [rng.randrange(256) for _ in range(32)]
        msgs = []
        for _ in range(rng.randrange(1, 13)):
            r = rng.random()
            ln = rng.choice(sizes) if r < 0.6 else (rng.randrange(0, 3000) if r < 0.95 else MAX + rng.choice([1, 2, 1000]))
            msgs.append((ln, rng.randrange(256)))
        cases.append(m1(msgs, key, "sequence" if _ % 3 else "sequence-rekey", rekey=(_ % 3 == 0)))
    for _ in range(max(8, n // 4)):
        # four threads sending at the same time: 8..60 messages of 1..3000 bytes (and a few too large)
        key = [rng.randrange(256) for _ in range(32)]
        msgs = [((MAX + 1) if rng.random() < 0.03 else rng.choice([1, 5, 64, 65, 700, 3000, rng.randrange(1, 3000)]), rng.randrange(256)) for _ in range(rng.randrange(8, 61))]
        c = m1(msgs, key, "concurrent")
        c["ints"][0] = 4
        cases.append(c)
    for _ in range(n):
        key = [rng.randrange(256) for _ in range(32)]
        ln = rng.choice([0, 1, 63, 64, 65, 127, 128, 129, 300, 4096, rng.randrange(0, 2000)])
        cases.append({"ints": [3] + key + [ln, rng.randrange(256)] + [rng.randrange(256) for _ in range(12)], "tag": "frame"})
    for _ in range(n):
        key = [rng.randrange(256) for _ in range(32)]
        kb = bytes(key)
        stream = b""
        for _ in range(rng.randrange(0, 4)):
            p = pattern(rng.choice([0, 1, 64, 65, 300]), rng.randrange(256))
            nonce = bytes(rng.randrange(256) for _ in range(12))
            stream += nonce + struct.pack(">I", len(p)) + chacha(kb, nonce, 0, p)
        tail = rng.choice(["none", "oversize", "oversize+bytes", "cut-nonce", "cut-length", "cut-body", "garbage", "huge"])
        nonce = bytes(rng.randrange(256) for _ in range(12))
        if tail == "oversize":
            stream += nonce + struct.pack(">I", MAX + 1)
        elif tail == "oversize+bytes":
            p = pattern(200, 3)
            stream += nonce + struct.pack(">I", MAX + rng.choice([1, 2, 4096])) + p
            n2 = bytes(rng.randrange(256) for _ in range(12))
            stream += n2 + struct.pack(">I", 5) + chacha(kb, n2, 0, b"after")
        elif tail == "huge":
            stream += nonce + struct.pack(">I", rng.choice([2 ** 31, 2 ** 32 - 1, 2 ** 24])) + b"xyz"
        elif tail == "cut-nonce":
            stream += nonce[:rng.randrange(1, 12)]
        elif tail == "cut-length":
            stream += nonce + struct.pack(">I", 9)[:rng.randrange(0, 4)]
        elif tail == "cut-body":
            stream += nonce + struct.pack(">I", 50) + bytes(rng.randrange(0, 50))
        elif tail == "garbage":
            stream += bytes(rng.randrange(256) for _ in range(rng.randrange(1, 40)))
        cases.append({"ints": [2] + key + lp(stream), "tag": "raw-" + tail})
    return cases


def judge(case, impl, model):
    ints = case["ints"]
    if impl and impl[0] in (-2000, -1000):
        return {"fail": f"C14|abnormal|{impl[:2]}"}
    if impl and impl[0] in (-9, -10, -11):
        return {"fail": f"C14|setup-or-session-did-not-end|{impl[0]}"}
    if ints[0] in (1, 4):
        n = ints[33]
        msgs = []
        p = 34
        for _ in range(n):
            msgs.append((ints[p], ints[p + 1]))
            p += 14
            rk = ints[p]; p += 1
            if rk:
                p += 32
    if ints[0] == 4:
        want = sorted((len(pattern(ln, seed)), checksum(pattern(ln, seed))) for ln, seed in msgs if ln <= MAX)
        cnt = impl[0]
        got = [(impl[1 + 2 * i], impl[2 + 2 * i]) for i in range(cnt)]
        if got != want:
            return {"fail": "C14|concurrent-sends-not-delivered-exactly-once"}
        return {"nontrivial": True}
    if ints[0] == 1:
        if len(impl) < n + 1:
            return {"fail": "C14|output-shape"}
        sent = impl[:n]
        for (ln, _), s in zip(msgs, sent):
            if ln > MAX and s:
                return {"fail": "C14|payload-above-the-limit-was-sent"}
            if ln <= MAX and not s:
                return {"fail": "C14|payload-within-the-limit-was-refused"}
        want = [pattern(ln, seed) for ln, seed in msgs if ln <= MAX]
        q = n
        cnt = impl[q]; q += 1
        got = []
        for _ in range(cnt):
            ln, cs = impl[q], impl[q + 1]; q += 2
            k = min(16, ln)
            got.append((ln, cs, bytes(impl[q:q + k]))); q += k
        exp = [(len(w), checksum(w), w[:16]) for w in want]
        if got != exp:
            if len(got) != len(exp):
                return {"fail": "C14|message-lost-or-duplicated"}
            return {"fail": "C14|delivered-bytes-differ-or-out-of-order"}
        return {"nontrivial": len(msgs) > 1 or any(ln in (MAX, MAX + 1, 0, 64, 65) for ln, _ in msgs)}
    chacha = _chacha()
    if ints[0] == 3:
        key = bytes(ints[1:33]); ln, seed = ints[33], ints[34]; nonce = bytes(ints[35:47])
        p = pattern(ln, seed)
        want = [1] + lp(nonce + struct.pack(">I", ln) + chacha(key, nonce, 0, p))
        if impl != want:
            return {"fail": "C14|frame-on-the-wire-is-not-nonce-length-chacha20"}
        return {"nontrivial": ln > 0}
    # raw streams: replay with an independent parser
    key = bytes(ints[1:33]); ln = ints[33]; stream = bytes(ints[34:34 + ln])
    exp = []
    off = 0
    while True:
        if len(stream) - off < 16:
            break
        nonce = stream[off:off + 12]
        size = struct.unpack(">I", stream[off + 12:off + 16])[0]
        if size > MAX or len(stream) - off - 16 < size:
            break
        body = stream[off + 16:off + 16 + size]
        p = chacha(key, nonce, 0, body)
        exp.append((len(p), checksum(p), p[:16]))
        off += 16 + size
    q = 0
    cnt = impl[q]; q += 1
    got = []
    for _ in range(cnt):
        l2, cs = impl[q], impl[q + 1]; q += 2
        k = min(16, l2)
        got.append((l2, cs, bytes(impl[q:q + k]))); q += k
    if got != exp:
        return {"fail": "C14|receiver-delivered-something-else-than-the-well-formed-frames-before-the-bad-one"}
    return {"nontrivial": True}
