"""C01 -- a stored chunk is retrievable exactly while it is live."""
ID = "C01"
FAMILY = "chunkstore"
RULE = ("operation histories against the real ChunkStore (level 1) and a real Node (level 2: store_chunk, fetch_chunk, "
        "export_chunk_record, handle_request from a peer with an adopted session, stored_chunks, tick) under the link-time "
        "virtual clock in nanoseconds: 2..4 chunk ids, payloads of 0..40 bytes, TTLs 0, negative, 1, 2, 30, 60 and window "
        "edges, overwrites with shorter and longer TTLs, clock steps that land 1 ns before / exactly at / 1 ns after a "
        "deadline, lookups between deadline and sweep, sweeps / ticks before and after. Oracle (independent of the model, "
        "python): a never-deleting reference -- for each id the latest put's bytes and deadline; every lookup / fetch / "
        "export / peer request must return exactly those bytes while now < deadline and nothing otherwise; every listing "
        "must show exactly the ids that are live; a sweep reports only expired ids. non-trivial = a history with a read "
        "within 1 s of a deadline or after an overwrite; distinct = distinct implementation outputs")
ASSUMPTIONS = ["persistence off (C04); the node's TTL window is taken from C02's model",
               "level 2 peer requests: acceptance is observed as an upload being started for the requesting peer"]
TRUSTED = ["extraction: ExtrOcamlBasic only", "harness/impl_chunkstore.cpp (own NodeTestAccess friend, adopted socketpair session), "
           "link-time replacement of the clocks"]
TIMEOUT = 900
NS = 10 ** 9


def lp(b):
    return [len(b)] + list(b)


def eff_ttl(level, ttl, d, mn, mx):
    if level == 2:
        e = ttl if ttl > 0 else d
        t = mn if e < mn else e
        t = mx if t > mx else t
        t = 1 if t <= 0 else t
        ttl = t
    e = ttl if ttl > 0 else d
    return max(e, 1)


def gen_history(rng, level, nops):
    d, mn, mx, ci = rng.choice([(60, 30, 3600, 1), (45, 30, 600, 300), (30, 30, 21600, 2), (3600, 30, 21600, 1)])
    ids = list(range(rng.choice([1, 2, 4])))
    now = 1000 * NS
    deadlines = {}
    ops = []
    for _ in range(nops):
        r = rng.random()
        if r < 0.25:
            i = rng.choice(ids)
            ttl = rng.choice([0, -5, 1, 2, 3, 30, 31, 60, 600, 601, 100000])
            data = [rng.randrange(256) for _ in range(rng.choice([0, 1, 5, 40]))]
            ops.append([1, i, ttl] + lp(data))
            deadlines[i] = now + eff_ttl(level, ttl, d, mn, mx) * NS
        elif r < 0.5:
            # land on a boundary of some deadline
            fut = sorted(v for v in deadlines.values() if v > now)
            if fut and rng.random() < 0.8:
                tgt = rng.choice(fut) + rng.choice([-1, 0, 1, -NS, NS])
                dt = max(0, tgt - now)
            else:
                dt = rng.choice([0, 1, NS, 2 * NS, 29 * NS, 30 * NS, 61 * NS, rng.randrange(0, 700 * NS)])
            now += dt
            ops.append([8, dt])
        elif r < 0.65:
            ops.append([2, rng.choice(ids)])
        elif r < 0.73:
            ops.append([3, rng.choice(ids)])
        elif r < 0.8:
            ops.append([4, rng.choice(ids)])
        elif r < 0.87:
            ops.append([5])
        elif r < 0.95:
            ops.append([6])
        else:
            ops.append([7])
    return [level, d, mn, mx, ci] + sum(ops, [])


def generate(rng, tier):
    n = {"quick": 250, "search": 400, "thorough": 4000}[tier]
    cases = []
    # the reading that motivated the fix: an expired chunk is still listed until the next sweep
    cases.append({"ints": [2, 60, 30, 3600, 300, 1, 0, 30, 2, 7, 7, 8, 30 * NS, 6, 2, 0, 6], "tag": "listed-after-expiry"})
    for i in range(n):
        level = 1 if i % 3 == 0 else 2
        cases.append({"ints": gen_history(rng, level, rng.choice([6, 15, 40, 100])), "tag": f"history-l{level}"})
    return cases


def judge(case, impl, model):
    ints = case["ints"]
    if impl and impl[0] in (-2000, -1000):
        return {"fail": f"C01|abnormal|{impl[:2]}"}
    level, d, mn, mx, ci = ints[:5]
    p = 5
    now = 1000 * NS
    ref = {}            # id -> (bytes, deadline) of the latest put
    q = 0
    nontrivial = False
    wrote = set()
    try:
        while p < len(ints):
            k = ints[p]
            if k == 1:
                i, ttl, n = ints[p + 1], ints[p + 2], ints[p + 3]
                data = ints[p + 4:p + 4 + n]; p += 4 + n
                if i in ref:
                    nontrivial = True
                ref[i] = (data, now + eff_ttl(level, ttl, d, mn, mx) * NS)
            elif k in (2, 3, 4):
                i = ints[p + 1]; p += 2
                livev = ref.get(i) if (i in ref and now < ref[i][1]) else None
                if i in ref and abs(ref[i][1] - now) <= NS:
                    nontrivial = True
                what = {2: "lookup", 3: "record", 4: "peer-request"}[k]
                if k == 4:
                    got = impl[q]; q += 1
                    if got == 1 and livev is None:
                        return {"fail": f"C01|served-at-or-after-deadline|{what}"}
                    # a peer request may be refused while the chunk is live (the node also requires the manifest's remaining
                    # lifetime to reach the minimum TTL: C03); C01 only forbids serving at or after the deadline
                    continue
                got = impl[q]; q += 1
                if got == 0:
                    if livev is not None:
                        return {"fail": f"C01|live-chunk-not-served|{what}"}
                    continue
                if k == 3:
                    left = impl[q]; q += 1
                n = impl[q]; body = impl[q + 1:q + 1 + n]; q += 1 + n
                if livev is None:
                    return {"fail": f"C01|served-at-or-after-deadline|{what}"}
                if body != livev[0]:
                    return {"fail": f"C01|wrong-bytes|{what}"}
                if k == 3 and left != livev[1] - now:
                    return {"fail": "C01|wrong-deadline"}
            elif k == 5:
                p += 1
                n = impl[q]; rem = impl[q + 1:q + 1 + n]; q += 1 + n
                for i in rem:
                    if i in ref and now < ref[i][1]:
                        return {"fail": "C01|sweep-removed-live-chunk"}
            elif k in (6, 7):
                p += 1
                n = impl[q]; ent = impl[q + 1:q + 1 + 2 * n]; q += 1 + 2 * n
                shown = {ent[2 * j]: ent[2 * j + 1] for j in range(n)}
                live_ids = {i for i, (b, dl) in ref.items() if now < dl}
                if k == 7:
                    # raw snapshot (what the TTL audit reads): may contain expired-but-unswept records, but only latest puts
                    for i, left in shown.items():
                        if i not in ref or left != ref[i][1] - now:
                            return {"fail": "C01|snapshot-shows-stale-record"}
                    for i in live_ids:
                        if i not in shown:
                            return {"fail": "C01|live-chunk-not-served|snapshot"}
                else:
                    for i in shown:
                        if i not in live_ids:
                            return {"fail": "C01|served-at-or-after-deadline|listing"}
                    for i in live_ids:
                        if i not in shown:
                            return {"fail": "C01|live-chunk-not-served|listing"}
                        if shown[i] != ref[i][1] - now:
                            return {"fail": "C01|wrong-deadline|listing"}
            elif k == 8:
                now += max(0, ints[p + 1]); p += 2
            else:
                break
    except IndexError:
        return {"fail": "C01|output-truncated"}
    if q != len(impl):
        return {"fail": "C01|output-shape"}
    return {"nontrivial": nontrivial}


def shrink(case):
    ints = case["ints"]
    head, p, ops = ints[:5], 5, []
    while p < len(ints):
        k = ints[p]
        n = {1: 4 + (ints[p + 3] if k == 1 and p + 3 < len(ints) else 0), 2: 2, 3: 2, 4: 2, 5: 1, 6: 1, 7: 1, 8: 2}.get(k)
        if n is None:
            break
        ops.append(ints[p:p + n]); p += n
    m = len(ops)
    for chunk in (m // 2, m // 4, 3, 1):
        if chunk < 1:
            continue
        for i in range(0, m, chunk):
            yield {"ints": head + sum(ops[:i] + ops[i + chunk:], []), "tag": "shrunk"}
