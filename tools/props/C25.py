"""C25 -- relay bridges deliver bytes only to the bridged partner."""
ID = "C25"
FAMILY = "relay"
RULE = ("the real RelayServer on the real EventLoop (127.0.0.1, ephemeral port), 2..7 TCP clients and three peer ids (lower and "
        "upper case spellings): histories of 5..40 client actions -- connect, REGISTER (valid, malformed, repeated, repeated "
        "while a connector has claimed the peer, the same id from two clients), CONNECT (to registered, unregistered, claimed -- "
        "also under another spelling of the id --, "
        "own id, malformed), the 32 identity bytes (whole, split, with data appended), data (1..200 bytes, sometimes 5000 or "
        "70000; and 1 .. 2.5 MB sent while the partner does not read, which then reads everything), data before the bridge exists, garbage and partial lines, CRLF, PONG, disconnects at every stage -- each "
        "handled completely by EventLoop::run before the next.  Every data byte carries its sender and a running counter. "
        "Read back after every action: the bytes that arrived at each client, whether the server still holds its session, the "
        "number of sessions and registry entries.  Oracle (independent of the model, from the byte streams alone): a client "
        "receives relayed bytes from at most one other client and never its own; pairings are symmetric; what c receives from p "
        "is a gap-free, in-order run of what p sent, starting with p's identity when p is the connector, and complete at the "
        "end of every action while both are connected; nothing relayed arrives before BEGIN (registered side) or before the "
        "connector has sent its identity; a registered client gets at most one BEGIN; when one side of an established bridge "
        "disconnects the other side's session is closed by the end of that action. non-trivial = a bridge carried data; "
        "distinct = distinct outputs")
ASSUMPTIONS = ["one client action is handled completely before the next (the harness stops every EventLoop::run batch): schedules "
               "in which the events of two clients fall into one epoll batch are not enumerated",
               "back-pressure: a partner that does not read while up to 3 MiB are sent, then reads everything (digest compared); a partner that never reads again is not exercised",
               "TCP on loopback delivers in order (the property is about the relay, not about TCP)"]
TRUSTED = ["extraction: ExtrOcamlBasic only", "harness/impl_relay.cpp (#define private public around the two relay headers; a pipe "
           "watcher that stops each EventLoop::run batch)"]
TIMEOUT = 1500

IDS = ["aa" * 32, "0123456789abcdef" * 4, "ff" * 31 + "0e"]


def lp(b):
    b = b.encode() if isinstance(b, str) else bytes(b)
    return [len(b)] + list(b)


class Gen:
    def __init__(self, rng):
        self.rng = rng
        self.ops = []
        self.n = 0
        self.counter = {}
        self.state = {}       # believed state: new / registered / awaiting / bridged / closed

    def connect(self):
        self.ops.append([0]); self.state[self.n] = "new"; self.counter[self.n] = 0; self.n += 1
        return self.n - 1

    def data(self, i, k):
        return bytes(0x80 | ((i & 7) << 4) | self.rng.randrange(16) for _ in range(k))

    def send(self, i, b):
        b = b.encode() if isinstance(b, str) else bytes(b)
        if self.rng.random() < 0.15 and len(b) > 1:
            cut = self.rng.randrange(1, len(b))
            self.ops.append([1, i] + lp(b[:cut])); self.ops.append([1, i] + lp(b[cut:]))
        else:
            self.ops.append([1, i] + lp(b))

    def close(self, i):
        self.ops.append([2, i]); self.state[i] = "closed"

    def ints(self):
        return [x for o in self.ops for x in o]


def spell(rng, h):
    return h.upper() if rng.random() < 0.1 else h


def generate(rng, tier):
    n = {"quick": 250, "search": 400, "thorough": 3000}[tier]
    cases = []
    for ci in range(n):
        g = Gen(rng)
        eol = "\r\n" if rng.random() < 0.15 else "\n"
        kind = rng.choice(["random", "random", "random", "reregister", "duplicate", "leave-early", "big", "double-claim"])
        if kind == "reregister":
            # A registers, B claims A, A registers again (same or another id), C connects to that id, identities, data, leaves
            a, b = g.connect(), g.connect()
            ida = rng.choice(IDS); idn = rng.choice(IDS)
            g.send(a, f"REGISTER {ida}{eol}")
            g.send(b, f"CONNECT {IDS[2] if ida != IDS[2] else IDS[0]} {ida}{eol}")
            if rng.random() < 0.5:
                g.send(b, g.data(b, rng.choice([10, 31])))
            g.send(a, f"REGISTER {idn}{eol}")
            c = g.connect()
            g.send(c, f"CONNECT {IDS[1] if idn != IDS[1] else IDS[0]} {idn}{eol}")
            order = [b, c]; rng.shuffle(order)
            for x in order:
                g.send(x, g.data(x, rng.choice([32, 32, 40, 22])))
            for _ in range(rng.randrange(2, 7)):
                x = rng.choice([a, b, c]); g.send(x, g.data(x, rng.randrange(1, 30)))
            leavers = [a, b, c]; rng.shuffle(leavers)
            for x in leavers[:rng.randrange(1, 4)]:
                g.close(x)
                for _ in range(rng.randrange(0, 3)):
                    y = rng.choice([a, b, c])
                    if g.state[y] != "closed":
                        g.send(y, g.data(y, rng.choice([1, 32, 40])))
        elif kind == "double-claim":
            # two connectors try to claim one registered peer, spelling its id differently (lower / upper / mixed case); then the
            # parties leave or send their identities in some order
            a, b = g.connect(), g.connect()
            h = rng.choice(IDS)

            def sp():
                r = rng.random()
                return h if r < 0.35 else (h.upper() if r < 0.7 else "".join(ch.upper() if rng.random() < 0.5 else ch for ch in h))
            g.send(a, f"REGISTER {sp()}{eol}")
            g.send(b, f"CONNECT {IDS[(IDS.index(h) + 1) % 3]} {sp()}{eol}")
            c = g.connect()
            g.send(c, f"CONNECT {IDS[(IDS.index(h) + 2) % 3]} {sp()}{eol}")
            steps = [("id", b), ("id", c), ("leave", a), ("leave", b), ("leave", c), ("data", a), ("data", b), ("data", c)]
            rng.shuffle(steps)
            for what, x in steps[:rng.randrange(2, 8)]:
                if g.state[x] == "closed":
                    continue
                if what == "id":
                    g.send(x, g.data(x, rng.choice([32, 32, 40])))
                elif what == "data":
                    g.send(x, g.data(x, rng.randrange(1, 40)))
                else:
                    g.close(x)
        elif kind == "duplicate":
            a, a2, b = g.connect(), g.connect(), g.connect()
            h = rng.choice(IDS)
            g.send(a, f"REGISTER {h}{eol}")
            if rng.random() < 0.5:
                g.send(b, f"CONNECT {IDS[(IDS.index(h) + 1) % 3]} {h}{eol}")
                g.send(a2, f"REGISTER {h}{eol}")
            else:
                g.send(a2, f"REGISTER {h}{eol}")
                g.send(b, f"CONNECT {IDS[(IDS.index(h) + 1) % 3]} {h}{eol}")
            if rng.random() < 0.5:
                g.close(b); b = g.connect(); g.send(b, f"CONNECT {IDS[(IDS.index(h) + 1) % 3]} {h}{eol}")
            g.send(b, g.data(b, 32 + rng.randrange(0, 20)))
            for _ in range(rng.randrange(1, 6)):
                x = rng.choice([a, a2, b]); g.send(x, g.data(x, rng.randrange(1, 40)))
            for x in rng.sample([a, a2, b], rng.randrange(0, 4)):
                g.close(x)
        elif kind == "leave-early":
            a, b = g.connect(), g.connect()
            h = rng.choice(IDS)
            g.send(a, f"REGISTER {h}{eol}")
            g.send(b, f"CONNECT {IDS[(IDS.index(h) + 1) % 3]} {h}{eol}")
            stage = rng.randrange(4)
            if stage >= 1:
                g.send(b, g.data(b, rng.choice([5, 31])))
            first = rng.choice([a, b]); g.close(first)
            other = b if first == a else a
            if rng.random() < 0.7:
                g.send(other, g.data(other, rng.choice([1, 27, 32, 64])))
            c = g.connect(); g.send(c, f"CONNECT {IDS[(IDS.index(h) + 2) % 3]} {h}{eol}"); g.send(c, g.data(c, 32))
            if g.state[a] != "closed":
                g.send(a, g.data(a, 9))
        elif kind == "big":
            a, b = g.connect(), g.connect()
            h = rng.choice(IDS)
            g.send(a, f"REGISTER {h}{eol}")
            if rng.random() < 0.35:
                # the connector pipelines everything in one write: CONNECT line, its 32 identity bytes and the first payload
                g.ops.append([1, b] + lp(f"CONNECT {IDS[(IDS.index(h) + 1) % 3]} {h}{eol}".encode() + g.data(b, 32 + rng.choice([100, 4064, 4065, 6000, 20000]))))
            else:
                g.send(b, f"CONNECT {IDS[(IDS.index(h) + 1) % 3]} {h}{eol}")
                g.ops.append([1, b] + lp(g.data(b, 32 + rng.choice([0, 5000]))))
            heavy = rng.random() < (0.4 if tier != "thorough" else 0.08)      # the model's digest loop is slow: few heavy transfers
            for _ in range(rng.randrange(1, 4)):
                x = rng.choice([a, b])
                if rng.random() < 0.35:
                    # the partner does not read while x sends; it reads everything afterwards (one heavy transfer per history at most)
                    g.ops.append([3, x, (2200000 if tier == "thorough" else 1300000) if heavy else rng.choice([1, 8192, 100000]), rng.randrange(128)])
                    heavy = False
                else:
                    g.ops.append([1, x] + lp(g.data(x, rng.choice([4096, 4097, 5000, 70000]))))
            if rng.random() < 0.3:
                g.ops.append([3, rng.choice([a, b]), 70000, 5])
            g.close(rng.choice([a, b]))
        else:
            for _ in range(rng.randrange(2, 5)):
                g.connect()
            for _ in range(rng.randrange(5, 40)):
                live = [i for i in range(g.n) if g.state[i] != "closed"]
                r = rng.random()
                if (r < 0.08 and g.n < 7) or not live:
                    g.connect(); continue
                i = rng.choice(live)
                if r < 0.3:
                    g.send(i, f"REGISTER {spell(rng, rng.choice(IDS))}{eol}"); g.state[i] = "registered"
                elif r < 0.5:
                    s, t = rng.choice(IDS), rng.choice(IDS)
                    if rng.random() < 0.85 and s == t:
                        t = IDS[(IDS.index(s) + 1) % 3]
                    g.send(i, f"CONNECT {spell(rng, s)} {spell(rng, t)}{eol}"); g.state[i] = "awaiting"
                elif r < 0.7:
                    g.send(i, g.data(i, rng.choice([32, 32, 33, 31, 64, 1])))
                elif r < 0.85:
                    g.send(i, g.data(i, rng.randrange(1, 200)))
                elif r < 0.9:
                    g.send(i, rng.choice(["PONG" + eol, "HELLO there" + eol, eol, "REGISTER zz" + eol, "CONNECT a" + eol, "CONNECT a b c" + eol,
                                          "REGISTER " + IDS[0][:63] + eol, "REGISTER", " " + eol, "register " + IDS[0] + eol]))
                else:
                    g.close(i)
        cases.append({"ints": g.ints(), "tag": kind})
    return cases


def bulk_digest(n, seed):
    count = 0; total = 0
    for k in range(n):
        count += 1
        total = (total + count * (128 + (seed + 7 * k) % 128)) & 0xFFFFFFFF
    return bytes([(count >> 24) & 255, (count >> 16) & 255, (count >> 8) & 255, count & 255,
                  (total >> 24) & 255, (total >> 16) & 255, (total >> 8) & 255, total & 255])


def parse_ops(ints):
    ops = []; p = 0
    while p < len(ints):
        c = ints[p]
        if c == 0:
            ops.append(("connect",)); p += 1
        elif c == 3:
            ops.append(("bulk", ints[p + 1], ints[p + 2], ints[p + 3])); p += 4
        elif c == 1:
            i, ln = ints[p + 1], ints[p + 2]; ops.append(("send", i, bytes(ints[p + 3:p + 3 + ln]))); p += 3 + ln
        else:
            ops.append(("close", ints[p + 1])); p += 2
    return ops


def parse_out(vals, nops):
    """per op: (list of (bytes, open)), sessions, registry, hung; then the trailer"""
    p = 0; steps = []
    for _ in range(nops):
        n = vals[p]; p += 1
        cl = []
        for _ in range(n):
            ln = vals[p]; b = bytes(vals[p + 1:p + 1 + ln]); p += 1 + ln
            cl.append((b, vals[p])); p += 1
        steps.append((cl, vals[p], vals[p + 1], vals[p + 2])); p += 3
    return steps, vals[p:]


def sender_of(byte):
    return (byte >> 4) & 7


def judge(case, impl, model):
    if not impl or impl[0] in (-2000, -1000) or impl[0] < 0:
        return {"fail": f"C25|abnormal|{impl[:2]}"}
    ops = parse_ops(case["ints"])
    try:
        steps, trailer = parse_out(impl, len(ops))
    except Exception:
        return {"fail": "C25|output-shape"}
    corr = impl[:len(impl) - 3] == model
    n = max([len(s[0]) for s in steps] + [0])
    recv = [b""] * n            # everything each client received
    sent_data = [b""] * n       # every tagged byte each client sent, in order
    sent_all = [b""] * n        # everything each client sent

    def identity_sent(i):
        # the client has sent a CONNECT line and at least 32 more bytes after it (any bytes serve as the identity)
        at = sent_all[i].find(b"CONNECT ")
        if at < 0:
            return False
        nl = sent_all[i].find(b"\n", at)
        return nl >= 0 and len(sent_all[i]) - (nl + 1) >= 32
    relay_from = [None] * n
    begins = [0] * n
    closed_by_client = [False] * n
    carried = False

    def bad(sig):
        return {"fail": "C25|" + sig, "corr": corr, "nontrivial": True}
    for k, (op, (cl, sessions, registry, hung)) in enumerate(zip(ops, steps)):
        if op[0] == "send":
            i, b = op[1], op[2]
            if i < n and not closed_by_client[i]:
                sent_data[i] += bytes(x for x in b if x >= 0x80)
                sent_all[i] += b
        elif op[0] == "close" and op[1] < n:
            closed_by_client[op[1]] = True
        if op[0] == "bulk":
            # under back-pressure: exactly one client (the sender's partner) reports the digest of all n bytes, nobody else anything
            got = [(c, b) for c, (b, _) in enumerate(cl) if b]
            if got:
                carried = True
                if len(got) != 1 or got[0][0] == op[1] or got[0][1] != bulk_digest(op[2], op[3]):
                    return bad("bytes-lost-or-altered-under-back-pressure")
                c = got[0][0]
                if (relay_from[c] is not None and relay_from[c] != op[1]) or (relay_from[op[1]] is not None and relay_from[op[1]] != c):
                    return bad("bulk-bytes-reached-a-client-that-is-not-the-partner")
            if hung:
                return {"fail": "C25|server-hung", "corr": corr}
            continue
        for c, (b, is_open) in enumerate(cl):
            recv[c] += b
            text = bytes(x for x in b if x < 0x80)
            begins[c] += text.count(b"BEGIN ")
            if begins[c] > 1:
                return bad("a-registered-peer-was-bridged-to-two-connectors")
            rel = bytes(x for x in b if x >= 0x80)
            if not rel:
                continue
            carried = True
            srcs = {sender_of(x) for x in rel}
            if c in srcs:
                return bad("a-client-received-its-own-bytes")
            if len(srcs) > 1 or (relay_from[c] is not None and relay_from[c] not in srcs):
                return bad("bytes-from-two-different-clients-reached-one-client")
            p = srcs.pop(); relay_from[c] = p
            if relay_from[p] is not None and relay_from[p] != c:
                return bad("pairing-not-symmetric")
            # nothing relayed before the receiving side's own bridge exists: the registered side has seen BEGIN first, the
            # connector has sent its 32 identity bytes
            if begins[c] == 0 and not identity_sent(c):
                return bad("relayed-bytes-before-the-receiver's-bridge-exists")
            if begins[c] > 0:
                first_rel = next(idx for idx, x in enumerate(recv[c]) if x >= 0x80)
                if recv[c].find(b"BEGIN ") > first_rel:
                    return bad("relayed-bytes-before-BEGIN")
            # the sending side has a bridge too
            if begins[p] == 0 and not identity_sent(p):
                return bad("relayed-bytes-from-a-client-without-a-bridge")
        # per pair: what c has from p is a gap-free, in-order run of what p sent; complete while both are connected
        for c in range(len(cl)):
            p = relay_from[c]
            if p is None:
                continue
            got = bytes(x for x in recv[c] if x >= 0x80)
            if sent_data[p].find(got) < 0:
                return bad("relayed-bytes-lost-reordered-or-altered")
            both_open = cl[c][1] == 1 and cl[p][1] == 1 and not closed_by_client[p] and not closed_by_client[c]
            if both_open and not sent_data[p].endswith(got):
                return bad("relayed-bytes-not-delivered-while-both-sides-are-connected")
        # when one side of an established bridge (bytes have flowed) disconnects, the other is closed by the end of the action
        if op[0] == "close" and op[1] < n:
            x = op[1]
            partners = {relay_from[x]} | {c for c in range(n) if relay_from[c] == x}
            for q in partners:
                if q is not None and q < len(cl) and cl[q][1] == 1:
                    return bad("partner-still-connected-after-the-other-side-left")
        if hung:
            return {"fail": "C25|server-hung", "corr": corr}
    return {"nontrivial": carried, "corr": corr}
