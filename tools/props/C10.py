"""C10 -- Shamir sharing reconstructs from any threshold subset and rejects bad sets."""
ID = "C10"
FAMILY = "shamir"
RULE = ("mode 1: gf_mul / gf_add / gf_div on EVERY pair of bytes (65 536 pairs, exhaustive) against an independent python "
        "GF(2^8) (carry-less multiplication reduced by 0x11D, inverse by exhaustive search); mode 2: the real Shamir::split "
        "with std::random_device replaced at link time by scripted bytes (thresholds 1..8, 32, 128, 254, 255; share counts "
        "t, t+1, 255; 0 and t > n refused); mode 3: the real Shamir::combine on subsets of split outputs -- any t shares in "
        "any order, more than t, fewer than t, a (t-1)-threshold reconstruction over the same index prefix immediately before and after, a repeated index (with zero and non-zero values), index 0, threshold 0; "
        "mode 4: evaluate_polynomial. Oracle (independent of the model): python Lagrange interpolation over the python "
        "field; split must yield n shares with indices 1..n whose values are the polynomial's; every t-subset must "
        "reconstruct the secret; fewer than t or repeated indices must throw std::invalid_argument. non-trivial = t >= 2; "
        "distinct = distinct implementation outputs")
ASSUMPTIONS = ["std::random_device is an input of the model (replaced at link time in the harness); its unpredictability is not modelled",
               "the general-t reconstruction theorem is not proved (see c10_reconstruct_partial): reconstruction for arbitrary t is tied by "
               "the python Lagrange oracle on explored inputs only"]
TRUSTED = ["extraction: ExtrOcamlBasic only", "harness/impl_shamir.cpp (#include of Shamir.cpp, link-time std::random_device)", "python GF(2^8) oracle"]
TIMEOUT = 1200


def pmul(a, b):
    r = 0
    while b:
        if b & 1:
            r ^= a
        a <<= 1
        if a & 0x100:
            a ^= 0x11D
        b >>= 1
    return r


INV = [0] * 256
for _a in range(1, 256):
    for _b in range(1, 256):
        if pmul(_a, _b) == 1:
            INV[_a] = _b
            break


def pdiv(a, b):
    return pmul(a, INV[b])


def peval(x, c0, cs):
    r, p = c0, 1
    for c in cs:
        p = pmul(p, x)
        r ^= pmul(c, p)
    return r


def plagrange(points):
    s = 0
    for i, (xi, yi) in enumerate(points):
        num = den = 1
        for j, (xj, _) in enumerate(points):
            if i != j:
                num = pmul(num, xj); den = pmul(den, xj ^ xi)
        s ^= pmul(yi, pdiv(num, den))
    return s


def lp(b):
    return [len(b)] + list(b)


def mk_shares(secret, t, n, rnd):
    k = t - 1
    out = []
    for j in range(1, n + 1):
        out.append((j, [peval(j, secret[b], rnd[b * k:(b + 1) * k]) for b in range(32)]))
    return out


def generate(rng, tier):
    cases = []
    pairs = [(a, b) for a in range(256) for b in range(256)]
    if tier == "quick":
        pairs = [(a, b) for a in range(256) for b in (0, 1, 2, 3, 29, 127, 128, 254, 255)] + \
                [(rng.randrange(256), rng.randrange(256)) for _ in range(3000)]
    for a, b in pairs:
        cases.append({"ints": [1, a, b], "tag": "field"})
    n = {"quick": 40, "search": 80, "thorough": 600}[tier]
    for i in range(n):
        secret = [rng.randrange(256) for _ in range(32)]
        t = rng.choice([1, 2, 2, 3, 3, 4, 5, 8] + ([32, 128, 254, 255] if i % 10 == 0 else []))
        cnt = rng.choice([t, t, min(255, t + 1), min(255, t + 3), 255 if i % 7 == 0 else min(255, t + 2)])
        rnd = [rng.randrange(256) for _ in range(32 * (t - 1))]
        if rng.random() < 0.15:
            rnd = [0] * len(rnd)
        cases.append({"ints": [2] + secret + [t, cnt] + lp(rnd), "tag": "split"})
        shares = mk_shares(secret, t, cnt, rnd)
        r = rng.random()
        sub = rng.sample(shares, t)
        tag = "combine-t"
        if r < 0.25:
            sub = rng.sample(shares, min(cnt, t + rng.randrange(0, 3))); rng.shuffle(sub); tag = "combine-more"
        elif r < 0.4 and t >= 2:
            sub = rng.sample(shares, t - 1); tag = "combine-fewer"
        elif r < 0.6 and t >= 2:
            sub = rng.sample(shares, t); k = rng.randrange(1, t)
            dupv = sub[0][1] if rng.random() < 0.5 else [0] * 32
            sub[k] = (sub[0][0], dupv)
            if rng.random() < 0.5:
                sub[0] = (sub[0][0], [0] * 32)
            tag = "combine-dup"
        elif r < 0.65:
            sub = [(0, secret)] + rng.sample(shares, t - 1); tag = "combine-index0"
        cases.append({"ints": [3, t, len(sub)] + sum(([x] + y for x, y in sub), []), "tag": tag, "secret": secret})
        if t >= 2 and cnt >= t + 1:
            # the same index prefix under a smaller threshold first, then the full threshold (and the other way round): a
            # reconstruction must not depend on what was reconstructed before
            other = mk_shares([rng.randrange(256) for _ in range(32)], t - 1, cnt, [rng.randrange(256) for _ in range(32 * (t - 2))])
            pre = [other[j[0] - 1] for j in shares[:t - 1]]
            cases.append({"ints": [3, t - 1, len(pre)] + sum(([x] + y for x, y in pre), []), "tag": "combine-prefix"})
            cases.append({"ints": [3, t, t] + sum(([x] + y for x, y in shares[:t]), []), "tag": "combine-t", "secret": secret})
            cases.append({"ints": [3, t - 1, len(pre)] + sum(([x] + y for x, y in pre), []), "tag": "combine-prefix"})
        cases.append({"ints": [4, rng.randrange(256), rng.randrange(256)] + lp([rng.randrange(256) for _ in range(rng.choice([0, 1, 2, 7]))]), "tag": "eval"})
    for t, cnt in [(0, 5), (5, 0), (0, 0), (6, 5), (255, 254), (1, 1), (1, 255), (255, 255), (2, 255)]:
        rnd = [rng.randrange(256) for _ in range(32 * max(0, t - 1))]
        cases.append({"ints": [2] + [rng.randrange(256) for _ in range(32)] + [t, cnt] + lp(rnd), "tag": "split-edge"})
    cases.append({"ints": [3, 0, 0], "tag": "combine-threshold0"})
    cases.append({"ints": [3, 2, 2, 1] + [0] * 32 + [1] + [0] * 32, "tag": "combine-dup"})   # historical witness: wrong secret as success
    return cases


def judge(case, impl, model):
    ints = case["ints"]
    mode = ints[0]
    if impl and impl[0] == -2000:
        kind = {1: "memory-error-or-ub", 2: "hang", 3: "crash"}.get(impl[1], "abnormal-exit")
        return {"fail": f"C10|{kind}|{case.get('tag')}"}
    if mode == 1:
        a, b = ints[1], ints[2]
        want = [pmul(a, b), a ^ b] + ([-1000, 1] if b == 0 else [0, pdiv(a, b)])
        if impl != want:
            return {"fail": "C10|field-arithmetic-wrong"}
        return {"nontrivial": a > 1 and b > 1}
    if mode == 2:
        secret = ints[1:33]; t, cnt = ints[33], ints[34]; rnd = ints[36:36 + ints[35]]
        bad = t == 0 or cnt == 0 or t > cnt
        if bad:
            if impl != [-1000, 1]:
                return {"fail": "C10|invalid-split-parameters-not-refused"}
            return {"nontrivial": False}
        if impl[:1] == [-1000]:
            return {"fail": f"C10|valid-split-refused|{impl[1:2]}"}
        n = impl[0]
        got = [(impl[1 + 33 * j], impl[2 + 33 * j:34 + 33 * j]) for j in range(n)]
        if n != cnt or [g[0] for g in got] != list(range(1, cnt + 1)):
            return {"fail": "C10|share-indices-not-1..n"}
        if got != mk_shares(secret, t, cnt, rnd):
            return {"fail": "C10|share-values-not-on-the-polynomial"}
        return {"nontrivial": t >= 2}
    if mode == 3:
        t, n = ints[1], ints[2]
        sub = [(ints[3 + 33 * j], ints[4 + 33 * j:36 + 33 * j]) for j in range(n)]
        if n < t:
            want = [-1000, 1]
        else:
            use = sub[:t]
            if len({x for x, _ in use}) != len(use):
                want = [-1000, 1]
            else:
                want = [0] + [plagrange([(x, y[b]) for x, y in use]) for b in range(32)]
        if impl != want:
            if want == [-1000, 1]:
                return {"fail": "C10|bad-share-set-not-refused|" + (case.get("tag") or "")}
            return {"fail": "C10|wrong-secret|" + (case.get("tag") or "")}
        sec = case.get("secret")
        if sec is not None and case.get("tag") in ("combine-t", "combine-more") and t >= 1 and impl[1:] != sec:
            return {"fail": "C10|threshold-subset-does-not-reconstruct"}
        return {"nontrivial": t >= 2}
    if mode == 4:
        n = ints[3]
        if impl != [peval(ints[1], ints[2], ints[4:4 + n])]:
            return {"fail": "C10|polynomial-evaluation-wrong"}
        return {"nontrivial": n > 0}
    return {}
