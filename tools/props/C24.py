"""C24 -- fetch scheduling respects limits, backs off, and always terminates."""
ID = "C24"
FAMILY = "fetch"
RULE = ("a real Node (virtual clock) with fetch_retry_initial_backoff 0/1/3 s, max back-off 0/4/60 s, success interval 0/2/15 s, "
        "attempt limit 0/2/3/5, fetch_max_parallel_requests 0..3, three peers with live socketpair sessions and five chunks "
        "whose manifests expire 20 s .. 1 h after the start, receives 8..40 operations: assigned-fetch announcements (40% "
        "re-announce a fetch that is pending or in flight, by the same or another peer), chunk arrivals, a peer becoming "
        "unreachable (its session ends, so sends fail), ticks and clock advances (1 ms, just below / at the success interval "
        "and the current back-off, beyond the manifest expiry); 'unreachable-peer' sequences in which every send to the assigned peer "
        "fails 5..11 times in a row (initial/maximum back-off 3/60, 3/5, 5/30, 1/7, 2/9, 7/100, no maximum). After every operation the REQUEST frames on the wire are read "
        "back and decoded, and the pending-fetch table (present, attempts, in flight, wait) and the per-peer counters are read "
        "through the friend class. Oracle (independent of the model): per peer, the fetches in flight and the node's counter "
        "never exceed the limit; the counter is zero when none of that peer's fetches is in flight; after a failed send the "
        "wait is min(initial * 2^min(attempts-1, 8), max) seconds; after a scheduling pass no fetch remains whose chunk is "
        "held, whose manifest has expired, whose last allowed attempt failed, or whose last allowed attempt went unanswered. "
        "non-trivial = a re-announce of an in-flight fetch, a failed send or a dropped fetch; distinct = distinct outputs")
ASSUMPTIONS = ["announcements enter at Node::schedule_assigned_fetch (admission of announces is C21); no provider records exist, so "
               "the ready queue is ordered by remaining manifest lifetime, attempts, enqueue time (enqueue times are distinct)",
               "a send fails exactly for peers whose session has ended (no endpoint, no relay: the fallback cannot connect)",
               "the exponent of the back-off is clamped at 8 by the code (factor 256): modelled as is"]
TRUSTED = ["extraction: ExtrOcamlBasic only", "harness/impl_fetch.cpp (own NodeTestAccess friend, adopted socketpair sessions, frames "
           "decrypted with the node's session key), link-time replacement of the clocks"]
TIMEOUT = 900
NP, NC = 3, 5


def mk(cfg, ttls, ops, tag):
    ints = list(cfg) + [NP, NC] + list(ttls)
    for o in ops:
        ints += list(o)
    return {"ints": ints, "tag": tag}


def backoff(cfg, attempts):
    ib, mb = cfg[0], cfg[1]
    base = ib if ib > 0 else 1
    e = min(max(attempts - 1, 0), 8)
    b = base * 2 ** e
    if mb > 0 and b > mb:
        b = mb
    return b if b > 0 else 1


def generate(rng, tier):
    n = {"quick": 150, "search": 250, "thorough": 1500}[tier]
    cases = []
    # the historical failures: a re-announce while the request is in flight (slot never given back); requests that are sent
    # but never answered outlive the attempt limit
    cases.append(mk((3, 60, 15, 5, 3), [3600] * 5, [(4, 1, 0), (0, 1, 1), (4, 1000, 0), (0, 1, 1), (4, 1000, 0), (0, 1, 2), (1, 1, 0), (3, 0, 0)], "reannounce-in-flight"))
    cases.append(mk((1, 4, 2, 2, 3), [3600] * 5, [(4, 1, 0), (0, 1, 1), (4, 2000, 0), (3, 0, 0), (4, 2000, 0), (3, 0, 0), (4, 2000, 0), (3, 0, 0), (4, 2000, 0), (3, 0, 0)], "unanswered-past-limit"))
    # a peer that cannot be reached: every send fails, the delay has to follow the whole back-off ladder up to the maximum
    for _ in range(n // 5):
        ib, mb = rng.choice([(3, 60), (3, 5), (5, 30), (1, 7), (2, 9), (1, 0), (3, 0), (2, 1000), (7, 100)])
        cfg = (ib, mb, rng.choice([2, 15]), rng.choice([0, 0, 12, 7]), rng.choice([0, 1, 3]))
        p, c = rng.randrange(1, NP + 1), rng.randrange(1, NC + 1)
        ops = [(2, p, 0), (4, 1, 0), (0, c, p)]
        for k in range(1, rng.choice([6, 9, 12])):
            ops.append((4, backoff(cfg, k) * 1000 - rng.choice([0, 0, 1]), 0))
            ops.append((3, 0, 0))
            if rng.random() < 0.3:
                ops.append((3, 0, 0))
        cases.append(mk(cfg, [3600 * 12] * NC, ops, "unreachable-peer"))
    for _ in range(n):
        cfg = (rng.choice([0, 1, 3]), rng.choice([0, 4, 60]), rng.choice([0, 2, 15]), rng.choice([0, 2, 3, 5]), rng.choice([0, 1, 2, 3]))
        ttls = [rng.choice([20, 60, 120, 3600, 3600]) for _ in range(NC)]
        si = (cfg[2] if cfg[2] > 0 else 1) * 1000
        present = {}
        ops = []
        for _ in range(rng.choice([8, 16, 28, 40])):
            r = rng.random()
            if r < 0.35:
                if present and rng.random() < 0.4:
                    c = rng.choice(list(present))
                    p = present[c] if rng.random() < 0.5 else rng.randrange(1, NP + 1)
                else:
                    c, p = rng.randrange(1, NC + 1), rng.randrange(1, NP + 1)
                ops.append((4, rng.choice([1, 2, 3]), 0))
                ops.append((0, c, p))
                present[c] = p
            elif r < 0.43:
                c = rng.choice(list(present)) if present and rng.random() < 0.7 else rng.randrange(1, NC + 1)
                ops.append((1, c, 0))
            elif r < 0.48:
                ops.append((2, rng.randrange(1, NP + 1), 0))
            elif r < 0.73:
                ops.append((3, 0, 0))
            else:
                k = rng.randrange(1, 6)
                ops.append((4, rng.choice([1, 500, si - 1, si, si + 1, backoff(cfg, k) * 1000, backoff(cfg, k) * 1000 - 1, 16000, 61000]), 0))
        cases.append(mk(cfg, ttls, ops, "sequence"))
    return cases


def judge(case, impl, model):
    ints = case["ints"]
    if impl and impl[0] in (-2000, -1000):
        return {"fail": f"C24|abnormal|{impl[:2]}"}
    if impl and impl[0] in (-8, -9, -10, -11):
        return {"fail": f"C24|setup-failed|{impl[0]}"}
    cfg = ints[:5]
    al, mp = cfg[3], cfg[4]
    ttls = ints[7:7 + NC]
    ops = [tuple(ints[i:i + 3]) for i in range(7 + NC, len(ints), 3)]
    now = 0
    peer_of = {}
    held = set()
    prev = {c: (0, 0, 0, -1) for c in range(1, NC + 1)}
    fresh = {c: False for c in range(1, NC + 1)}     # announced again since its last dispatch?
    i = 0
    nontrivial = False
    for code, a, b in ops:
        if i >= len(impl):
            return {"fail": "C24|output-shape"}
        f = impl[i]; i += 1
        if f < 0 or i + 2 * f + 4 * NC + NP > len(impl):
            return {"fail": "C24|output-shape"}
        frames = [tuple(impl[i + 2 * k:i + 2 * k + 2]) for k in range(f)]
        i += 2 * f
        obs = {c: tuple(impl[i + 4 * (c - 1):i + 4 * c]) for c in range(1, NC + 1)}
        i += 4 * NC
        counters = impl[i:i + NP]
        i += NP
        elapsed_before = now
        ran = False
        if code == 4:
            now += max(0, a) * 10 ** 6
        elif code == 1:
            held.add(a)
        elif code == 0:
            if a not in held:
                if prev[a][0] and prev[a][2]:
                    nontrivial = True
                peer_of[a] = b
                fresh[a] = True
                ran = True
        elif code == 3:
            ran = True
        for p, c in frames:
            if c < 1 or c > NC or peer_of.get(c) != p:
                return {"fail": "C24|request-frame-for-a-fetch-not-assigned-to-that-peer"}
        for c in range(1, NC + 1):
            present, attempts, flying, wait = obs[c]
            if not present:
                if prev[c][0]:
                    nontrivial = True
                continue
            pp, pa, pf, pw = prev[c]
            if attempts == pa + 1:
                if pp and al > 0 and pa >= al and not fresh[c]:
                    return {"fail": "C24|request-sent-again-after-the-attempt-limit", "nontrivial": True}
                fresh[c] = False
            if attempts == pa + 1 and not flying:
                # a send failed in this op
                nontrivial = True
                if wait != backoff(cfg, attempts) * 1000 and not (al > 0 and attempts >= al):
                    return {"fail": "C24|back-off-after-failed-send-not-as-specified", "nontrivial": True}
            if ran:
                if c in held:
                    return {"fail": "C24|fetch-kept-although-chunk-is-held"}
                if now >= ttls[c - 1] * 10 ** 9:
                    return {"fail": "C24|fetch-kept-past-manifest-expiry"}
                if al > 0 and attempts >= al and not flying and attempts == pa + 1:
                    return {"fail": "C24|fetch-kept-after-last-allowed-attempt-failed"}
                if al > 0 and pa >= al and pp and pf and not flying and attempts == pa and code == 3:
                    # it was in flight with all attempts used, this pass saw it time out, and it is still pending
                    return {"fail": "C24|fetch-kept-after-last-allowed-attempt-went-unanswered"}
        for p in range(1, NP + 1):
            mine = [c for c in range(1, NC + 1) if obs[c][0] and obs[c][2] and peer_of.get(c) == p]
            if mp > 0 and (len(mine) > mp or counters[p - 1] > mp):
                return {"fail": "C24|per-peer-fetch-limit-exceeded"}
            if not mine and counters[p - 1] != 0:
                return {"fail": "C24|in-flight-count-not-zero-with-nothing-outstanding"}
        prev = obs
    return {"nontrivial": nontrivial}
