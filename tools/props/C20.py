"""C20 -- inbound handshakes are accepted only with a valid key and valid PoW."""
ID = "C20"
FAMILY = "handshake"
P = 2147483647
RULE = ("timed sequences of 3..25 inbound transport handshakes for one claimed peer id given to the real "
        "Node::handle_transport_handshake under the virtual clock (PoW difficulty 5): public keys valid (two different ones) "
        "and invalid (0, 1, p, p+1, 2^32-1), nonces valid (from the node's own solver, several distinct ones per key) or one "
        "zero bit short, gaps 0, 1, cooldown-1, cooldown, cooldown+1 and longer, cool-downs 0, 5 and 60 s -- in particular a "
        "different key or an unproven nonce INSIDE the cool-down of an accepted handshake, and an exact repeat of the accepted "
        "one. Oracle (independent of the model): an acknowledgement requires 1 < key < p and a proven nonce for exactly that "
        "(peer, node, key); after a rejection the registered session key is the one held before and the claimed peer's "
        "reputation is strictly lower (unless already -100). non-trivial = a sequence with an accepted handshake followed by "
        "a rejected one; distinct = distinct implementation outputs")
ASSUMPTIONS = ["the PoW verdict of each (key, nonce) pair is an input of the model (C19 decides it); validate_public is C12's",
               "which public key the registered session key belongs to is recovered in the harness by recomputing C12's derivation"]
TRUSTED = ["extraction: ExtrOcamlBasic only", "harness/impl_handshake.cpp (#include of Node.cpp, own NodeTestAccess friend), "
           "link-time replacement of the clocks"]
TIMEOUT = 900


def generate(rng, tier):
    n = {"quick": 150, "search": 300, "thorough": 3000}[tier]
    cases = []
    # the historical failures
    cases.append({"ints": [5, 0, 1234567, 0, 1, 1, 7777, 0, 0], "tag": "cooldown-other-key"})
    cases.append({"ints": [5, 0, 1234567, 0, 1, 0, 1234567, 3, 0], "tag": "cooldown-unproven-nonce"})
    cases.append({"ints": [5, 0, 1, 0, 1, 0, 1234567, 0, 1], "tag": "invalid-key-no-penalty"})
    for _ in range(n):
        cd = rng.choice([0, 5, 5, 60])
        keys = [rng.randrange(2, P), rng.randrange(2, P)]
        ev = []
        for _ in range(rng.choice([3, 6, 12, 25])):
            gap = rng.choice([0, 0, 1, max(0, cd - 1), cd, cd + 1, 2 * cd + 3, 100])
            r = rng.random()
            if r < 0.7:
                pub = rng.choice(keys)
            else:
                # invalid publics: the classical ones, and values above p whose residue mod p is an ordinary key (p + 2,
                # a valid key + p, 2p - 1, 2^31 + x, anything in (p, 2^32))
                pub = rng.choice([0, 1, P, P + 1, 2 ** 32 - 1, P + 2, P + 5, 2 * P - 1, 2 ** 32 - 3, keys[0] + P, keys[1] + P,
                                  2 ** 31 + rng.randrange(2, 1000), rng.randrange(P + 2, 2 ** 32 - 2)])
            valid = 1 if rng.random() < 0.6 else 0
            tok = rng.choice([0, 0, 0, 1, 2])
            ev += [gap, pub, tok + (10 if not valid else 0), valid]
        cases.append({"ints": [cd] + ev, "tag": "sequence"})
    return cases


def judge(case, impl, model):
    ints = case["ints"]
    if impl and impl[0] in (-2000, -1000):
        return {"fail": f"C20|abnormal|{impl[:2]}"}
    ev = [ints[1 + 4 * i:5 + 4 * i] for i in range((len(ints) - 1) // 4)]
    if len(impl) != 4 * len(ev):
        return {"fail": "C20|output-shape"}
    prev_owner, prev_score = -1, 0
    saw_acc = saw_rej_after = False
    for i, (gap, pub, tok, valid) in enumerate(ev):
        ok, owner, score, ls = impl[4 * i:4 * i + 4]
        if ok:
            saw_acc = True
            if not (1 < pub < P):
                return {"fail": "C20|accepted-invalid-public-key"}
            if not valid:
                return {"fail": "C20|accepted-without-valid-pow"}
            if owner != pub:
                return {"fail": "C20|acknowledged-with-another-keys-session"}
        else:
            if saw_acc:
                saw_rej_after = True
            if owner != prev_owner:
                return {"fail": "C20|rejection-changed-session-key"}
            if not (score < prev_score or prev_score == -100):
                return {"fail": "C20|rejection-without-reputation-penalty"}
        prev_owner, prev_score = owner, score
    return {"nontrivial": saw_rej_after}
