"""Shared generators for the message-codec family (C13, C15, C16).  Not a plugin."""
import hashlib
import hmac as pyhmac

TYPES = {0: 1, 1: 2, 2: 3, 3: 4, 4: 5, 5: 6}   # payload kind -> MessageType byte
BOUNDARY_LENS = [0, 1, 2, 31, 32, 33, 255, 256, 257]
U32 = 2 ** 32
U64 = 2 ** 64


def rbytes(rng, n):
    return [rng.randrange(256) for _ in range(n)]


def rid(rng):
    k = rng.randrange(4)
    if k == 0:
        return [0] * 32
    if k == 1:
        return [255] * 32
    return rbytes(rng, 32)


def rlen(rng, big=False):
    r = rng.random()
    if r < 0.5:
        return rng.choice(BOUNDARY_LENS)
    if big and r < 0.53:
        return rng.choice([65535, 65536, 70000])
    return rng.randrange(0, 80)


def u64_ints(v):
    return [v >> 32, v & 0xFFFFFFFF]


def rand_u32(rng):
    return rng.choice([0, 1, 2, 255, 256, 65535, 65536, 2 ** 31 - 1, 2 ** 31, U32 - 2, U32 - 1, rng.randrange(U32)])


def rand_u64(rng):
    return rng.choice([0, 1, U32 - 1, U32, U32 + 1, 2 ** 63 - 1, 2 ** 63, U64 - 1, rng.randrange(U64), rng.randrange(U64)])


def rand_version(rng):
    return rng.choice([0, 1, 2, 3, 4, 5, 6, 7, 127, 128, 254, 255, 1, 2, 3, 4, 3, 3, rng.randrange(256)])


def rand_message(rng, kind=None, version=None, big=False):
    """Returns dict(version, type, kind, fields) with fields in wire ranges."""
    kind = rng.randrange(6) if kind is None else kind
    v = rand_version(rng) if version is None else version
    m = {"version": v, "type": TYPES[kind], "kind": kind}
    if kind == 0:
        m.update(chunk=rid(rng), peer=rid(rng), endpoint=rbytes(rng, rlen(rng)), ttl=rand_u32(rng),
                 manifest=rbytes(rng, rlen(rng, big)), shards=rbytes(rng, rlen(rng)), nonce=rand_u64(rng))
    elif kind == 1:
        m.update(chunk=rid(rng), peer=rid(rng))
    elif kind == 2:
        m.update(chunk=rid(rng), data=rbytes(rng, rlen(rng, big)), ttl=rand_u32(rng))
    elif kind == 3:
        m.update(chunk=rid(rng), peer=rid(rng), accepted=rng.randrange(2))
    elif kind == 4:
        m.update(pub=rand_u32(rng), nonce=rand_u64(rng), ver=rng.randrange(256))
    else:
        m.update(accepted=rng.randrange(2), ver=rng.randrange(256), pub=rand_u32(rng))
    return m


def minimal_messages(rng):
    """every empty / non-empty combination of the variable-length fields, for every version class: the encodings whose
    size is exactly the fixed part (or the fixed part plus one field) sit on the decoder's length-guard boundaries"""
    out = []
    for v in [0, 1, 2, 3, 4, 5, 255]:
        for mask in range(8):
            m = rand_message(rng, 0, v)
            m["endpoint"] = rbytes(rng, rng.choice([1, 2, 21])) if mask & 1 else []
            m["manifest"] = rbytes(rng, rng.choice([1, 3, 90])) if mask & 2 else []
            m["shards"] = rbytes(rng, rng.choice([1, 2, 255])) if mask & 4 else []
            out.append((m, f"min:k0v{v}m{mask}"))
        for ln in (0, 1):
            m = rand_message(rng, 2, v)
            m["data"] = rbytes(rng, ln)
            out.append((m, f"min:k2v{v}l{ln}"))
    return out


def lp(b):
    return [len(b)] + list(b)


def msg_ints(m):
    k = m["kind"]
    out = [m["version"], m["type"], k]
    if k == 0:
        out += m["chunk"] + m["peer"] + lp(m["endpoint"]) + [m["ttl"]] + lp(m["manifest"]) + lp(m["shards"]) + u64_ints(m["nonce"])
    elif k == 1:
        out += m["chunk"] + m["peer"]
    elif k == 2:
        out += m["chunk"] + lp(m["data"]) + [m["ttl"]]
    elif k == 3:
        out += m["chunk"] + m["peer"] + [m["accepted"]]
    elif k == 4:
        out += [m["pub"]] + u64_ints(m["nonce"]) + [m["ver"]]
    else:
        out += [m["accepted"], m["ver"], m["pub"]]
    return out


def carried(m):
    """The message the receiver must see (python rendering of MessageProofs.carry)."""
    c = dict(m)
    c["version"] = min(4, max(1, m["version"]))
    if m["kind"] == 0 and c["version"] < 3:
        c["nonce"] = 0
    return c


def be(v, n):
    return list(int(v).to_bytes(n, "big"))


def py_encode(m):
    """Independent python rendering of the wire format (for building inputs to the decoders)."""
    v = min(4, max(1, m["version"]))
    out = [v, m["type"]]
    k = m["kind"]
    if k == 0:
        out += be(m["ttl"], 4) + be(len(m["endpoint"]), 4) + be(len(m["manifest"]), 4) + be(len(m["shards"]), 4)
        out += m["chunk"] + m["peer"] + m["endpoint"] + m["manifest"] + m["shards"]
        if v >= 3:
            out += be(m["nonce"], 8)
    elif k == 1:
        out += m["chunk"] + m["peer"]
    elif k == 2:
        out += be(m["ttl"], 4) + be(len(m["data"]), 4) + m["chunk"] + m["data"]
    elif k == 3:
        out += [m["accepted"]] + m["chunk"] + m["peer"]
    elif k == 4:
        out += be(m["pub"], 4) + be(m["nonce"], 8) + [m["ver"]]
    else:
        out += [m["accepted"], m["ver"]] + be(m["pub"], 4)
    return out


def py_hmac(key, data):
    return list(pyhmac.new(bytes(key), bytes(data), hashlib.sha256).digest())


def split_decoded(out):
    """Parses the 'ser_decoded' tail: returns None for [0], else (message_ints, prefix_flag)."""
    if not out or out[0] == 0:
        return None
    return out[1:-1], out[-1]


def parse_msg_ints(ints, pos=0):
    """Inverse of msg_ints. Returns (m, next_pos)."""
    def take(n):
        nonlocal pos
        r = ints[pos:pos + n]
        pos += n
        return list(r)

    def nxt():
        return take(1)[0]

    def lpb():
        n = nxt()
        return take(n)

    def u64():
        hi, lo = nxt(), nxt()
        return (hi << 32) | lo

    v, t, k = nxt(), nxt(), nxt()
    m = {"version": v, "type": t, "kind": k}
    if k == 0:
        m["chunk"] = take(32); m["peer"] = take(32); m["endpoint"] = lpb(); m["ttl"] = nxt()
        m["manifest"] = lpb(); m["shards"] = lpb(); m["nonce"] = u64()
    elif k == 1:
        m["chunk"] = take(32); m["peer"] = take(32)
    elif k == 2:
        m["chunk"] = take(32); m["data"] = lpb(); m["ttl"] = nxt()
    elif k == 3:
        m["chunk"] = take(32); m["peer"] = take(32); m["accepted"] = nxt()
    elif k == 4:
        m["pub"] = nxt(); m["nonce"] = u64(); m["ver"] = nxt()
    else:
        m["accepted"] = nxt(); m["ver"] = nxt(); m["pub"] = nxt()
    return m, pos
