"""C02 -- every lifetime the node creates lies inside the sanitised TTL window."""
ID = "C02"
FAMILY = "config"
RULE = ("mode 1: a real Node is constructed from a generated Config (every duration field drawn from negative, 0, the bounds "
        "1 s / 5 s / 1 h / 24 h each -1/+0/+1, INT64 extremes; min > max, default outside the window; PoW difficulties 0..255) "
        "and its effective config() is read back; mode 2: Node::store_chunk with requested TTLs (negative, 0, 1, min-1, min, "
        "max, max+1, huge) under the virtual clock, reading the four deadlines it creates (ChunkStore record, manifest "
        "expires_at, shard record, own provider announcement); mode 4: the same chunk stored twice with the clock moved by 0 ms .. twice "
        "the first lifetime in between (the second store's four deadlines are read); mode 3: the control server's STORE handler (the real "
        "ControlServer::Impl::handle_client over a socketpair) with TTL headers: absent, digits around min/max, 2^63, "
        "2^64-1, 2^64, values congruent to an acceptable TTL modulo 2^16 / 2^31 / 2^32 / 2^63, leading zeros / sign / spaces / hex / empty / trailing garbage. Oracle (independent of the model): "
        "1 <= min <= max <= 86400, min <= default <= max, 5 <= rotation <= 3600, PoW <= 24; every created lifetime is inside "
        "[min, max] of the node's effective config and equals the requested TTL when that is inside the window; a STORE "
        "is accepted iff the header is a decimal uint64 inside the window (or absent) and the stored chunk then lives for "
        "exactly that long. non-trivial = a field had to be changed / a TTL outside the window; distinct = distinct outputs")
ASSUMPTIONS = ["clock in whole seconds; the node's own announcement is read from the provider table (dht_.snapshot_locators)"]
TRUSTED = ["extraction: ExtrOcamlBasic only", "harness/impl_config.cpp (#include of ControlServer.cpp with private made public, "
           "own NodeTestAccess friend), link-time replacement of the clocks"]
TIMEOUT = 900
I64MAX = 2 ** 63 - 1
I64MIN = -2 ** 63


def dur(rng, around):
    base = rng.choice(around)
    return rng.choice([base - 1, base, base + 1, 0, -1, -5, 1, 2, 30, 600, 21600, 86399, 86400, 86401, 10 ** 9,
                       I64MAX // 10 ** 10, -(10 ** 9), rng.randrange(-100, 100000)])


def rand_cfg(rng):
    return [dur(rng, [1, 30, 86400]), dur(rng, [1, 21600, 86400]), dur(rng, [1, 21600, 86400]), dur(rng, [5, 300, 3600]),
            dur(rng, [1, 15]), rng.choice([0, 1, 4, 100]), dur(rng, [1, 120, 3600]),
            rng.choice([0, 6, 23, 24, 25, 255]), rng.choice([0, 4, 24, 25, 200]), rng.choice([0, 6, 24, 25, 255])]


def lp(b):
    return [len(b)] + list(b)


def generate(rng, tier):
    n = {"quick": 150, "search": 300, "thorough": 2500}[tier]
    cases = []
    for _ in range(n):
        cases.append({"ints": [1] + rand_cfg(rng), "tag": "sanitize"})
    for _ in range(n):
        c = rand_cfg(rng)
        ttl = rng.choice([0, -1, -100, 1, 2, c[0] - 1, c[0], c[0] + 1, c[1] - 1, c[1], c[1] + 1, 86400, 86401, 10 ** 12,
                          rng.randrange(1, 100000)])
        cases.append({"ints": [2] + c + [ttl], "tag": "store"})
    # the same chunk stored again after the clock moved (0 ms, a few ms, just before / at / after the first deadline): the
    # second store's lifetimes must again be the requested (sanitised) TTL, whatever is left of the first record
    for _ in range(n // 2):
        c = rand_cfg(rng)
        t1 = rng.choice([1, 2, 30, 60, 3600, c[0], c[1], rng.randrange(1, 100000)])
        t2 = rng.choice([0, 1, 30, 60, 3600, 86400, c[0], c[1], c[1] + 1, rng.randrange(1, 100000)])
        e1 = max(1, t1)
        dt = rng.choice([0, 1, 999, 1000, 3000, e1 * 1000 - 1000, e1 * 1000 - 1, e1 * 1000, e1 * 1000 + 1, e1 * 500, rng.randrange(0, 2 * e1 * 1000 + 1)])
        cases.append({"ints": [4] + c + [t1, max(0, dt), t2], "tag": "restore"})
    m = {"quick": 60, "search": 120, "thorough": 600}[tier]
    for _ in range(m):
        c = rand_cfg(rng)
        c[9] = 0
        k = rng.randrange(12)
        base = rng.choice([1, 29, 30, 31, 3600, 21600, 21601, 86400, 86401, c[0], c[1], max(0, c[0] - 1), c[1] + 1])
        base = max(0, base)
        if k == 0:
            cases.append({"ints": [3] + c + [0, 0], "tag": "gate-absent"})
            # values whose low 16 / 32 / 63 bits are an acceptable TTL (a narrowing conversion anywhere on the path would let
            # them through)
            for w in (2 ** 16, 2 ** 31, 2 ** 32, 2 ** 33, 2 ** 63, 2 ** 64 - 2 ** 32):
                v = w + rng.choice([30, 60, 3600, 21600, 86400])
                if v < 2 ** 64:
                    cases.append({"ints": [3] + c + [1] + lp(str(v).encode()), "tag": "gate-wrap"})
            continue
        text = {1: str(base), 2: "0" * rng.randrange(1, 5) + str(base), 3: "+" + str(base), 4: "-" + str(base), 5: " " + str(base),
                6: str(base) + " ", 7: "0x10", 8: "", 9: str(rng.choice([2 ** 63 - 1, 2 ** 63, 2 ** 64 - 1, 2 ** 64, 2 ** 64 + 30, 10 ** 30])),
                10: str(base) + "s", 11: str(base)}[k]
        cases.append({"ints": [3] + c + [1] + lp(text.encode()), "tag": "gate"})
    return cases


def judge(case, impl, model):
    ints = case["ints"]
    mode = ints[0]
    if impl and impl[0] in (-2000, -1000):
        return {"fail": f"C02|abnormal|mode{mode}|{impl[:2]}"}
    c = ints[1:11]
    if mode == 1:
        mn, mx, d, rot, ai, bl, bw, pa, ph, ps = impl
        if not (1 <= mn <= mx <= 86400):
            return {"fail": "C02|ttl-window-violated"}
        if not (mn <= d <= mx):
            return {"fail": "C02|default-ttl-outside-window"}
        if not (5 <= rot <= 3600):
            return {"fail": "C02|key-rotation-outside-bounds"}
        if pa > 24 or ph > 24 or ps > 24:
            return {"fail": "C02|pow-difficulty-above-24"}
        return {"nontrivial": impl != c}
    mn, mx = impl[0], impl[1]
    if mode in (2, 4):
        ttl = ints[11] if mode == 2 else ints[13]
        lts = impl[2:6]
        names = ["chunk-record", "manifest-expiry", "shard-record", "self-announcement"]
        for nm, v in zip(names, lts):
            if not (mn <= v <= mx):
                return {"fail": f"C02|lifetime-outside-window|{nm}"}
        if mn <= ttl <= mx and any(v != ttl for v in lts):
            return {"fail": "C02|requested-ttl-not-honoured"}
        if len(set(lts)) != 1:
            return {"fail": "C02|lifetimes-differ"}
        return {"nontrivial": mode == 4 or not (mn <= ttl <= mx)}
    if mode == 3:
        has = ints[11]
        text = bytes(ints[13:13 + ints[12]]).decode("latin1") if has else None
        res = impl[2:]
        if res and res[0] in (-5, -6):
            return {"fail": f"C02|unexpected-control-response|{res[:1]}"}
        if text is None:
            want_ok, v = True, None
        else:
            isnum = len(text) > 0 and all("0" <= ch <= "9" for ch in text) and int(text) < 2 ** 64
            v = int(text) if isnum else None
            want_ok = isnum and v < 2 ** 63 and mn <= v <= mx
        if res[0] == 1:
            if not want_ok:
                return {"fail": "C02|store-ttl-outside-window-accepted"}
            if not (mn <= res[1] <= mx):
                return {"fail": "C02|lifetime-outside-window|control-store"}
            if v is not None and res[1] != v:
                return {"fail": "C02|requested-ttl-not-honoured"}
        elif want_ok:
            return {"fail": "C02|valid-store-ttl-refused"}
        return {"nontrivial": text is not None}
    return {}


def outcome_class(case, impl):
    m = case["ints"][0]
    if m == 3 and impl and len(impl) > 2:
        return {1: "gate:accepted", 2: "gate:invalid", 3: "gate:out-of-range"}.get(impl[2], "gate:other")
    return {1: "sanitize", 2: "store"}.get(m, "?")
