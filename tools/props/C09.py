"""C09 -- ChaCha20 matches RFC 8439 and is its own inverse."""
ID = "C09"
FAMILY = "chacha"
RULE = ("mode 1: ChaCha20::apply on random keys/nonces with counters {0,1,2^32-2,2^32-1,random} and lengths on the "
        "block boundaries (0,1,63,64,65,127,128,129,...); mode 2: CryptoManager::decrypt_with_key; mode 3: "
        "encrypt_with_key self-consistency flags (nonce drawn by the implementation). Implementation output must equal "
        "the extracted model's (which is proved equal to the RFC 8439 spec). non-trivial = non-empty input; distinct = "
        "distinct implementation outputs")
ASSUMPTIONS = ["nonce freshness (random_device / mt19937) is not modelled: theorems hold for every nonce",
               "the all-zero key is replaced by a random key in CryptoManager's constructor and is excluded"]
TRUSTED = ["extraction: ExtrOcamlBasic only", "harness/impl_chacha.cpp"]
LENS = [0, 1, 2, 31, 32, 63, 64, 65, 127, 128, 129, 191, 192, 193, 255, 256, 257, 300]
CTRS = [0, 1, 2, 2 ** 31, 2 ** 32 - 3, 2 ** 32 - 2, 2 ** 32 - 1]


def lp(b):
    return [len(b)] + list(b)


def rb(rng, n):
    return [rng.randrange(256) for _ in range(n)]


def generate(rng, tier):
    n = {"quick": 200, "search": 300, "thorough": 3000}[tier]
    cases = []
    for L in LENS:
        for c in CTRS:
            cases.append({"ints": [1] + rb(rng, 32) + lp(rb(rng, 12)) + [c] + lp(rb(rng, L)), "tag": "apply-boundary"})
    for i in range(n):
        r = rng.random()
        L = rng.choice(LENS + [rng.randrange(0, 1000)])
        if r < 0.5:
            c = rng.choice(CTRS + [rng.randrange(2 ** 32)])
            key = rb(rng, 32) if rng.random() < 0.9 else [0] * 32
            cases.append({"ints": [1] + key + lp(rb(rng, 12)) + [c] + lp(rb(rng, L)), "tag": "apply"})
        elif r < 0.8:
            idb = rb(rng, 32)
            if rng.random() < 0.3:
                idb[0:4] = rng.choice([[255, 255, 255, 255], [254, 255, 255, 255], [0, 0, 0, 0]])
            cases.append({"ints": [2] + rb(rng, 31) + [1] + idb + lp(rb(rng, 12)) + lp(rb(rng, L)), "tag": "decrypt"})
        else:
            idb = rb(rng, 32)
            if rng.random() < 0.3:
                idb[0:4] = [255, 255, 255, 255]
            cases.append({"ints": [3] + rb(rng, 31) + [1] + idb + lp(rb(rng, L)), "tag": "encrypt-self"})
    if tier == "thorough":
        cases.append({"ints": [1] + rb(rng, 32) + lp(rb(rng, 12)) + [2 ** 32 - 2] + lp(rb(rng, 70000)), "tag": "apply-long"})
    return cases


def judge(case, impl, model):
    if impl and impl[0] in (-2000, -1000):
        return {"fail": f"C09|abnormal|{impl[:2]}"}
    ints = case["ints"]
    if impl != model:
        if ints[0] == 1:
            L = ints[1 + 32 + 13 + 1]
            return {"fail": f"C09|keystream-mismatch|blocks={min(3, (L + 63) // 64)}|ctr-wrap={ints[46] >= 2 ** 32 - 2}"}
        if ints[0] == 2:
            return {"fail": "C09|decrypt-mismatch"}
        return {"fail": f"C09|encrypt-self-inconsistent|{impl}"}
    return {"nontrivial": len(impl) > 0}
