"""C13 -- signed messages are accepted only with the exact MAC over the exact bytes."""
import os, sys
sys.path.insert(0, os.path.dirname(__file__))
import _msggen as G

ID = "C13"
FAMILY = "message"
RULE = ("mode 4: encode_signed then decode_signed with the same key; mode 3: a validly signed message with one "
        "mutation (each class: single-bit flip in body or tag, truncation, extension by 1..64 bytes, 32-byte block "
        "swap, different key (another length, unrelated, and -- right after the implementation has signed under K1 -- K1 with one bit changed at byte 0, 7, 8, 9, the middle, the end, in both directions), several tag bytes changed so that the differences cancel under + or xor, an exact MAC over a body cut by 1..32 bytes or with a length field inflated by 1..32, none) is given to the real decode_signed and the extracted model; the oracle recomputes "
        "HMAC-SHA256 independently (python hashlib); non-trivial = buffer of at least 34 bytes; distinct = distinct "
        "(mutation class, implementation output)")
ASSUMPTIONS = ["HMAC unforgeability is a hypothesis of c13_body_tamper, not a theorem"]
TRUSTED = ["extraction: ExtrOcamlBasic only", "harness/impl_message.cpp, tools/props/_msggen.py", "python hashlib/hmac as oracle"]


def generate(rng, tier):
    n = {"quick": 250, "search": 400, "thorough": 4000}[tier]
    cases = []
    for i in range(n):
        key = G.rbytes(rng, rng.choice([0, 1, 16, 32, 32, 32, 63, 64, 65, 131]))
        m = G.rand_message(rng)
        if i % 5 == 0:
            cases.append({"ints": [4] + G.lp(key) + G.msg_ints(m), "tag": "roundtrip"})
            continue
        wire = G.py_encode(m)
        s = wire + G.py_hmac(key, wire)
        r = rng.randrange(11)
        vkey = key
        if r == 8:
            # several tag bytes changed at once so that the byte differences cancel under +, xor (an accumulating
            # comparison other than OR-of-XOR would accept these)
            k = rng.choice([2, 2, 3, 4, 8, 32])
            idx = rng.sample(range(32), k)
            style = rng.randrange(4)
            if style == 0:
                diffs = [0x80] * 2 + [0] * (k - 2)
            elif style == 1:
                d0 = rng.randrange(1, 256); diffs = [d0, 256 - d0] + [0] * (k - 2)
            elif style == 2:
                d0 = rng.randrange(1, 256); diffs = [d0, d0] + [0] * (k - 2)
            else:
                diffs = [rng.randrange(1, 256) for _ in range(k - 1)]
                diffs.append((-sum(diffs)) % 256 or 256 // 2)
            for j, d in zip(idx, diffs):
                s[len(wire) + j] ^= d & 255
            tag = "tag-multi"
        elif r == 9:
            # the key holder signs a body that is 1..32 bytes too short to decode: the MAC is exact, the body is not a message
            cut = rng.randrange(1, 33)
            w2 = wire[:max(0, len(wire) - cut)]
            s = w2 + G.py_hmac(key, w2); tag = "signed-short-body"
        elif r == 10:
            # exact MAC over a body whose length field claims up to 32 bytes more than the body holds
            w2 = list(wire)
            if len(w2) > 40:
                j = rng.randrange(2, min(len(w2), 80)); w2[j] = (w2[j] + rng.randrange(1, 33)) & 255
            s = w2 + G.py_hmac(key, w2); tag = "signed-overlong-field"
        elif r == 0:
            tag = "intact"
        elif r == 1:
            i0 = rng.randrange(len(wire)); s[i0] ^= 1 << rng.randrange(8); tag = "flip-body"
        elif r == 2:
            i0 = len(wire) + rng.randrange(32); s[i0] ^= 1 << rng.randrange(8); tag = "flip-tag"
        elif r == 3:
            s = s[:rng.randrange(0, len(s))]; tag = "truncate"
        elif r == 4:
            s = s + G.rbytes(rng, rng.randrange(1, 65)); tag = "extend"
        elif r == 5:
            if len(s) >= 64:
                a = rng.randrange(0, len(s) - 63); b = a + 32
                s = s[:a] + s[b:b + 32] + s[a:a + 32] + s[b + 32:]
            tag = "swap"
        elif r == 6:
            vkey = list(key) + [0] if rng.random() < 0.5 else G.rbytes(rng, 32); tag = "other-key"
        else:
            # re-signed after a body change: must be ACCEPTED iff the body decodes
            j = rng.randrange(len(wire)); w2 = list(wire); w2[j] = rng.randrange(256)
            s = w2 + G.py_hmac(key, w2); tag = "resigned"
        cases.append({"ints": [3] + G.lp(vkey) + G.lp(s), "tag": tag})
    # related keys, used one after the other in the same process (the cases of a run go through one harness process in order):
    # the implementation signs under K1, then is asked to verify K1's frame under K2 = K1 with one bit changed at byte 0, 7, 8,
    # 9, the middle or the end (same length, long common prefix), then signs under K2 and verifies that under K1
    for klen in [1, 8, 9, 16, 32, 32, 64, 65, 131]:
        for pos in sorted({0, min(7, klen - 1), min(8, klen - 1), min(9, klen - 1), klen // 2, klen - 1}):
            k1 = G.rbytes(rng, klen)
            k2 = list(k1); k2[pos] ^= 1 << rng.randrange(8)
            m = G.rand_message(rng)
            wire = G.py_encode(m)
            cases.append({"ints": [4] + G.lp(k1) + G.msg_ints(m), "tag": "related-key-sign"})
            cases.append({"ints": [3] + G.lp(k2) + G.lp(wire + G.py_hmac(k1, wire)), "tag": "related-key"})
            cases.append({"ints": [4] + G.lp(k2) + G.msg_ints(m), "tag": "related-key-sign"})
            cases.append({"ints": [3] + G.lp(k1) + G.lp(wire + G.py_hmac(k2, wire)), "tag": "related-key"})
            cases.append({"ints": [3] + G.lp(k1) + G.lp(wire + G.py_hmac(k1, wire)), "tag": "related-key-intact"})
    return cases


def judge(case, impl, model):
    ints = case["ints"]
    if impl and impl[0] in (-2000, -1000):
        return {"fail": f"C13|abnormal|{impl[:2]}", "nontrivial": True}
    if ints[0] == 4:
        klen = ints[1]
        m, _ = G.parse_msg_ints(ints, 2 + klen)
        n = impl[0]
        dec = G.split_decoded(impl[1 + n:])
        if dec is None or dec[0] != G.msg_ints(G.carried(m)):
            return {"fail": "C13|own-signature-rejected", "nontrivial": True}
        enc = impl[1:1 + n]
        if enc[-32:] != G.py_hmac(ints[2:2 + klen], enc[:-32]):
            return {"fail": "C13|tag-is-not-hmac", "nontrivial": True}
        return {"nontrivial": True}
    klen = ints[1]
    key = ints[2:2 + klen]
    buf = ints[3 + klen:]
    accepted = impl[0] == 1
    good = len(buf) >= 32 and buf[-32:] == G.py_hmac(key, buf[:-32])
    if accepted and not good:
        return {"fail": "C13|accepted-without-exact-mac", "nontrivial": True}
    if (not accepted) and good and model and model[0] == 1:
        return {"fail": "C13|rejected-exact-mac", "nontrivial": True}
    if accepted and good and model and model[0] == 0:
        # exact MAC, but the authenticated bytes are not a message (decodability as decided by the model, whose decoder is
        # tied to the real one by C15/C16): fields can then only have come from outside the authenticated bytes
        return {"fail": "C13|accepted-undecodable-body", "nontrivial": True}
    return {"nontrivial": len(buf) >= 34}


def outcome_class(case, impl):
    t = (case.get("tag") or "?")
    return t + (":accepted" if impl and impl[0] == 1 or (case["ints"][0] == 4 and impl and impl[1 + impl[0]] == 1) else ":rejected")
