"""C29 -- control responses reach the client intact, so list shows every chunk."""
ID = "C29"
FAMILY = "control"
RULE = ("mode 1: field sets (1..12 fields, keys from the daemon's vocabulary and random upper-case keys, values with line feeds, "
        "carriage returns, backslashes, backslash-n text, colons, leading / trailing blanks, empty, 0..300 bytes, every byte "
        "value; one value of 4095..33000 bytes, around and beyond every plausible read-block size) with and without a payload (0..5000 bytes, including bytes that look like headers) are written by the real "
        "ControlServer::Impl::send_response and read back by the real client parse_response over a socketpair; mode 2: the "
        "client reader on arbitrary / truncated bytes; mode 5: a real Node with 0..300 (thorough: 1000) stored chunks (some of them in the last second of their lifetime, or just past it) answers LIST through the "
        "real handler and the answer is read by the real client and split the way `eph list` does. Oracle (independent of "
        "the model): the client must end up with exactly the fields, success flag and payload handed to send_response, and "
        "LIST must show exactly as many entries as the node holds. non-trivial = a value containing LF / CR / backslash or a "
        "payload; distinct = distinct implementation outputs")
ASSUMPTIONS = ["field keys are upper-case without ':' CR LF (the daemon's keys are literals of that shape) and are not STATUS / PAYLOAD-LENGTH",
               "unordered_map iteration order is any order: the theorem quantifies over the field list order",
               "a zero-length payload span is 'no payload' for send_response (it tests the data pointer); payloads here have >= 1 byte"]
TRUSTED = ["extraction: ExtrOcamlBasic only", "harness/impl_control.cpp + impl_control_extra.cpp (#include of ControlServer.cpp / ControlClient.cpp)"]
TIMEOUT = 900
KEYS = ["CODE", "MESSAGE", "HINT", "ENTRIES", "COUNT", "AUTO_ADVERTISE_WARNINGS", "MANIFEST", "SIZE", "TTL", "PEERS", "BOOTSTRAP_NODES",
        "ADVERTISED_ENDPOINTS", "X", "A-B_C9"]


def lp(b):
    return [len(b)] + list(b)


def rand_value(rng):
    k = rng.randrange(10)
    if k == 0:
        return b""
    if k == 1:
        return b"\n".join(b"%064x,%d,plain,%d" % (rng.getrandbits(256), rng.randrange(9999), rng.randrange(600)) for _ in range(rng.randrange(1, 6))) + b"\n"
    if k == 2:
        return bytes(rng.choice([10, 13, 92, 110, 114, 58, 32, 65]) for _ in range(rng.randrange(1, 12)))
    if k == 3:
        return b"line one\nline two\r\nC:\\path\\name\\n literally\n\n"
    if k == 4:
        return bytes(rng.randrange(256) for _ in range(rng.choice([1, 5, 300])))
    if k == 5:
        return b" leading and trailing "
    if k == 6:
        return b"\\"
    if k == 7:
        return b"\n"
    return bytes(rng.choice(b"abcXYZ019 :.,-_/") for _ in range(rng.randrange(1, 40)))


def generate(rng, tier):
    n = {"quick": 300, "search": 600, "thorough": 5000}[tier]
    cases = []
    for _ in range(n):
        nf = rng.choice([1, 2, 3, 6, 12])
        keys = rng.sample(KEYS, min(nf, len(KEYS)))
        fields = [(k.encode(), rand_value(rng)) for k in keys]
        ints = [1, rng.randrange(2), len(fields)]
        for k, v in fields:
            ints += lp(k) + lp(v)
        if rng.random() < 0.4:
            pl = rng.choice([b"x", b"STATUS:ERROR\n\n", bytes(rng.randrange(256) for _ in range(rng.choice([1, 100, 5000])))])
            ints += [1] + lp(pl)
        else:
            ints += [0]
        cases.append({"ints": ints, "tag": "roundtrip"})
    # long values (a chunk list is one header line of ~82 bytes per chunk): lengths around and far beyond any read-block size a
    # client may use, alone and followed by another field and a payload
    for ln in [4095, 4096, 4097, 8191, 8192, 8193, 16383, 16384, 16385, 20000, 33000]:
        for shape in range(2):
            v = bytes(rng.choice([65, 66, 44, 48, 10, 92]) for _ in range(ln))
            fields = [(b"ENTRIES", v)] + ([(b"COUNT", b"250"), (b"CODE", b"OK_LIST")] if shape else [])
            ints = [1, 1, len(fields)]
            for k, v2 in fields:
                ints += lp(k) + lp(v2)
            ints += ([1] + lp(b"payload after a long header")) if shape else [0]
            cases.append({"ints": ints, "tag": "roundtrip-long"})
    for _ in range(n // 4):
        raw = rng.choice([b"", b"STATUS:OK\n", b"STATUS:OK\nA:1\n\n", b"A:1\n\n", b"STATUS:OK\nPAYLOAD-LENGTH:5\n\nabc", b"STATUS:OK\nPAYLOAD-LENGTH:x\n\n",
                          b"status:ok\nk:v\\n\\\\x\n\n", b"STATUS:OK\nnocolon\nB:2\n\n", bytes(rng.randrange(256) for _ in range(rng.choice([1, 20, 200])))])
        cases.append({"ints": [2] + lp(raw), "tag": "client-raw"})
    for k in [0, 1, 2, 3, 10, 40, 120, 300] + ([1000] if tier != "quick" else []):
        cases.append({"ints": [5, 0, k], "tag": "list"})
    # chunks in their last second (remaining TTL shows as 0 s), just expired, and well alive
    for k, k2, adv in [(2, 1, 29500), (0, 3, 29999), (1, 2, 29001), (3, 2, 30000), (2, 2, 30001), (1, 1, 15000), (0, 1, 29000), (0, 2, 1)]:
        cases.append({"ints": [5, 0, k, k2, adv], "tag": "list-last-second"})
    return cases


def judge(case, impl, model):
    ints = case["ints"]
    mode = ints[0]
    if impl and impl[0] in (-2000, -1000):
        return {"fail": f"C29|abnormal|mode{mode}|{impl[:2]}"}
    if mode == 1:
        ok, n = ints[1], ints[2]
        p = 3
        fields = {}
        nontrivial = False
        for _ in range(n):
            kl = ints[p]; k = bytes(ints[p + 1:p + 1 + kl]); p += 1 + kl
            vl = ints[p]; v = bytes(ints[p + 1:p + 1 + vl]); p += 1 + vl
            fields[k] = v
            nontrivial = nontrivial or any(c in v for c in b"\n\r\\")
        payload = None
        if ints[p] == 1:
            pl = ints[p + 1]; payload = ints[p + 2:p + 2 + pl]; nontrivial = True
            fields[b"PAYLOAD-LENGTH"] = str(pl).encode()
        want = [1, 1 if ok else 0, len(fields)]
        for k in sorted(fields):
            want += lp(k) + lp(fields[k])
        want += ([1] + lp(payload)) if payload is not None else [0]
        if impl != want:
            what = "payload" if impl[:3] == want[:3] and impl[:len(want) - (len(payload or []) + 2)] == want[:len(want) - (len(payload or []) + 2)] else "fields"
            return {"fail": f"C29|client-sees-different-{what}", "nontrivial": nontrivial}
        return {"nontrivial": nontrivial}
    if mode == 5:
        k = ints[2]
        k2 = ints[3] if len(ints) > 3 else 0
        adv = ints[4] if len(ints) > 4 else 0
        okf, count, lines, held = impl
        live = k + 1 + (k2 if adv < 30000 else 0)   # a chunk is live strictly before its deadline (C01)
        res = {"corr": True, "nontrivial": k + k2 >= 2}
        if not okf or count != live or lines != live or held != live:
            res["fail"] = "C29|list-does-not-show-every-chunk"
        return res
    return {"nontrivial": False}
