"""C22 -- swarm plans hand every shard to exactly one eligible provider, evenly."""
ID = "C22"
FAMILY = "swarm"
RULE = ("the real SwarmCoordinator::compute_plan over a real KademliaTable under the virtual clock: manifests with 0..255 "
        "shards (labels arbitrary bytes, duplicates included), thresholds 0..255, a declared total_shares byte that equals / is smaller / larger than the number of carried shards or 0, 0..40 registered contacts (some expired at "
        "plan time, the node's own id offered too, mixed loads / choking / reputation so that the ranking varies), "
        "swarm_min_providers / swarm_target_replicas / swarm_candidate_sample each 0, 1, 2, 3, 8, 40, 65535. The model gets "
        "the number of candidates and the shard labels and must reproduce the number of assignments and every slot's shard "
        "list; who is ranked into which slot is not modelled. Oracle (independent of the model): every shard position "
        "is handed to exactly one provider (multiset of labels preserved), counts differ by at most one and are >= 1, the "
        "number of providers is min(c, s, max(target, min(max(minprov, thr), c, s))), providers are distinct, were "
        "registered, are unexpired at plan time and are not the node itself. non-trivial = a plan with >= 2 providers; "
        "distinct = distinct implementation outputs")
ASSUMPTIONS = ["the scored ranking (doubles, mt19937 jitter, std::sort) is not modelled: the theorems hold for every ranking"]
TRUSTED = ["extraction: ExtrOcamlBasic only", "harness/impl_swarm.cpp, link-time replacement of steady_clock::now"]
TIMEOUT = 600


def lp(b):
    return [len(b)] + list(b)


def generate(rng, tier):
    n = {"quick": 300, "search": 600, "thorough": 5000}[tier]
    cases = []
    for _ in range(n):
        nshards = rng.choice([0, 1, 2, 3, 5, 7, 8, 16, 17, 100, 255])
        labels = [rng.randrange(256) for _ in range(nshards)] if rng.random() < 0.5 else [(i + 1) % 256 for i in range(nshards)]
        thr = rng.choice([0, 1, 2, 3, 5, nshards % 256, 255])
        mn = rng.choice([0, 1, 2, 3, 8, 40, 65535])
        tg = rng.choice([0, 1, 2, 3, 8, 40, 65535])
        sample = rng.choice([0, 1, 2, 3, 8, 40, 65535])
        seed = rng.getrandbits(32)
        selfid = [rng.randrange(256) for _ in range(32)]
        chunk = [rng.randrange(256) for _ in range(32)]
        ncont = rng.choice([0, 1, 2, 3, 5, 9, 20, 40])
        contacts = []
        seen = set()
        for i in range(ncont):
            # spread over buckets so that none overflows (bucket eviction is C07's subject)
            cid = list(selfid)
            bit = (i * 6) % 250
            cid[bit // 8] ^= 0x80 >> (bit % 8)
            for j in range(bit // 8 + 1, 32):
                cid[j] = rng.randrange(256)
            if tuple(cid) in seen:
                continue
            seen.add(tuple(cid))
            life = rng.choice([0, 1, 5, 60, 900, 3600])
            contacts.append((cid, life, rng.choice([0, 0, 1, 5]), rng.choice([0, 1, 3]), rng.choice([0, 0, 1]), rng.choice([-5, 0, 10])))
        if rng.random() < 0.2:
            contacts.append((list(selfid), 3600, 0, 0, 0, 0))
        advance = rng.choice([0, 0, 1, 5, 60])
        live = [c for c in contacts if c[1] > advance and c[0] != selfid]
        ncand = min(max(sample, 1), len(live))
        total_shares = rng.choice([nshards % 256, nshards % 256, 0, 1, 2, 5, 255, max(0, nshards - 1) % 256, (nshards + 3) % 256])
        ints = [ncand] + lp(labels) + [thr, mn, tg, sample, seed, total_shares] + selfid + chunk + [len(contacts)]
        for c in contacts:
            ints += c[0] + [c[1], c[2], c[3], c[4], c[5]]
        ints += [advance]
        cases.append({"ints": ints, "tag": "plan", "live": [tuple(c[0]) for c in live], "self": tuple(selfid)})
    return cases


def judge(case, impl, model):
    ints = case["ints"]
    if impl and impl[0] in (-2000, -1000):
        return {"fail": f"C22|abnormal|{impl[:2]}"}
    ncand = ints[0]
    nl = ints[1]
    labels = ints[2:2 + nl]
    thr, mn, tg = ints[2 + nl:5 + nl]
    p = impl[0]
    q = 1
    slots = []
    for _ in range(p):
        k = impl[q]; slots.append(impl[q + 1:q + 1 + k]); q += 1 + k
    peers = [tuple(impl[q + 32 * i:q + 32 * (i + 1)]) for i in range(p)]
    corr = model is not None and impl[:q] == model
    s = len(labels)
    want = min(ncand, s, max(tg, min(max(mn, thr), ncand, s))) if (s > 0 and ncand > 0) else 0
    res = {"corr": corr, "nontrivial": p >= 2}
    if p != want:
        res["fail"] = "C22|provider-count-formula"
        return res
    if p == 0:
        return res        # no candidate (or no shard): the plan is empty and the chunk stays local
    if sorted(sum(slots, [])) != sorted(labels):
        res["fail"] = "C22|shards-not-partitioned"
        return res
    # position-exact: slot k must hold positions k, k+p, ... in order (each position exactly once)
    if p and any(len(sl) == 0 for sl in slots):
        res["fail"] = "C22|provider-without-shard"
        return res
    if p and max(len(sl) for sl in slots) - min(len(sl) for sl in slots) > 1:
        res["fail"] = "C22|uneven"
        return res
    if len(set(peers)) != len(peers):
        res["fail"] = "C22|provider-twice"
        return res
    live = set(case.get("live") or []) if "live" in case else None
    if live is not None:
        for pr in peers:
            if pr == case["self"]:
                res["fail"] = "C22|self-is-provider"
                return res
            if pr not in live:
                res["fail"] = "C22|provider-not-a-live-contact"
                return res
    return res
