"""C39 -- key rotation never leaves the two ends of a session on different keys."""
import importlib.util
import pathlib

ID = "C39"
FAMILY = "rotation"
_spec = importlib.util.spec_from_file_location("c12_for_c39", pathlib.Path(__file__).with_name("C12.py"))
_c12 = importlib.util.module_from_spec(_spec)
_spec.loader.exec_module(_c12)

NS = 10 ** 9
RULE = ("mode 1: two real Nodes (generated identity seeds, peer ids, key_rotation_interval 0/1/5/6/30/3600/5000 s per node, "
        "handshake clock readings that differ by 0, 1 ns, 1 us, 1 s or more) handshake with each other, adopt the two ends of a "
        "socketpair as their live sessions, and then run 1..10 Node::tick calls, each under the acting node's own clock "
        "reading placed just before, exactly at and just after its next rotation time (interval - 1 ns, interval, interval + "
        "1 ns, multiples) or far from it, and of repeated handshakes (the same public key and nonce reaching a node again, inside "
        "/ at / after its cool-down of 0, 5 or 60 s, on one end or on both); schedules where only one node ticks, where both tick at the same reading with the "
        "same handshake reading (synchronised), and where the readings are one nanosecond apart. Observed after every tick: "
        "rotated?, both KeyManager keys, both live-session keys, both sessions open?, and whether a message sealed with one "
        "end's keys (encode_signed + ChaCha20) opens at the other end (decode_signed). mode 2: a bare KeyManager with "
        "intervals 0/1/5/60 s, material of 0..40 bytes and readings that also go backwards. Oracle (independent of the "
        "model): while both sessions are open the two live keys are equal and messages open in both directions; a tick "
        "rotates only when the node's own clock has advanced by at least its (clamped) interval since its last rotation. "
        "after both ends have registered the handshake again since the last rotation they agree again. A disagreement that "
        "first appears at a tick whose rotation was due is the recorded finding; any other disagreement is a new violation. non-trivial = at least one rotation happened; distinct = distinct implementation outputs")
ASSUMPTIONS = ["each node's steady clock is an input: an operation carries the reading of the node that acts (one process, the "
               "harness sets the clock before each call)",
               "transport delivery is observed by sealing and opening one message with the two ends' actual keys through the "
               "real encode_signed / ChaCha20::apply / decode_signed, not by moving bytes over the socketpair",
               "std::mt19937 / uniform_int_distribution are not modelled: the identity scalars are inputs (predicted in python, "
               "read back through the friend class)"]
TRUSTED = ["extraction: ExtrOcamlBasic only", "harness/impl_rotation.cpp (#define private public around SessionManager.hpp and "
           "KeyManager.hpp, own NodeTestAccess friend), link-time replacement of the clocks"]
TIMEOUT = 900
OBS = 1 + 32 * 4 + 4
KNOWN = "C39|desync-after-due-rotation"


def clamp_iv(iv):
    return 5 if iv < 5 else 3600 if iv > 3600 else iv


def u64(v):
    return [(v >> 32) & 0xFFFFFFFF, v & 0xFFFFFFFF]


def mode1(rng, iva, ivb, hsa, hsb, ops, tag, cda=5, cdb=5):
    sa, sb = rng.randrange(1, 2 ** 32), rng.randrange(1, 2 ** 32)
    ida = [rng.randrange(256) for _ in range(32)]
    idb = [rng.randrange(256) for _ in range(32)]
    ints = [1, _c12.draw_scalar(sa), _c12.draw_scalar(sb), sa, sb] + ida + idb + [iva, ivb, cda, cdb] + u64(hsa) + u64(hsb) + [len(ops)]
    for who, t in ops:
        ints += [who] + u64(t)
    return {"ints": ints, "tag": tag}


def generate(rng, tier):
    n = {"quick": 110, "search": 200, "thorough": 1500}[tier]
    cases = []
    base = 10 ** 12
    # the recorded finding, minimal: only A's clock has passed the interval
    cases.append(mode1(rng, 5, 5, base, base, [(0, base + 5 * NS)], "one-sided"))
    # both rotate when their own clock says so, readings one nanosecond apart
    cases.append(mode1(rng, 5, 5, base, base + 1, [(0, base + 5 * NS), (1, base + 1 + 5 * NS)], "one-ns-apart"))
    # synchronised: same handshake reading, same tick readings
    cases.append(mode1(rng, 5, 5, base, base, [(0, base + 5 * NS), (1, base + 5 * NS), (0, base + 11 * NS), (1, base + 11 * NS)], "synchronised"))
    # nobody is due
    cases.append(mode1(rng, 30, 30, base, base, [(0, base + 29 * NS), (1, base + 30 * NS - 1), (0, base + 30 * NS - 1)], "early"))
    # the re-establishment branch: A rotates, then both ends take the handshake again after the cool-down
    cases.append(mode1(rng, 5, 5, base, base, [(0, base + 5 * NS), (2, base + 6 * NS), (3, base + 6 * NS + 7)], "rehandshake-after-rotation"))
    cases.append(mode1(rng, 5, 5, base, base, [(0, base + 5 * NS), (1, base + 7 * NS), (3, base + 8 * NS), (2, base + 9 * NS), (0, base + 9 * NS + 1)], "rehandshake-after-rotation"))
    # inside the cool-down the repeated handshake is acknowledged but changes nothing
    cases.append(mode1(rng, 5, 5, base, base, [(0, base + 5 * NS), (2, base + 6 * NS), (3, base + 6 * NS)], "rehandshake-in-cooldown", 60, 60))
    for _ in range(n):
        iva = rng.choice([0, 1, 5, 5, 6, 30, 3600, 5000])
        ivb = iva if rng.random() < 0.6 else rng.choice([0, 5, 6, 30, 3600])
        hsa = base + rng.randrange(0, 10 ** 9)
        hsb = hsa + rng.choice([0, 0, 1, 1000, NS, 7 * NS + 13, -1, -NS])
        last = {0: hsa, 1: hsb}
        now = {0: hsa, 1: hsb}
        iv = {0: clamp_iv(iva) * NS, 1: clamp_iv(ivb) * NS}
        style = rng.choice(["mixed", "mixed", "early", "paired", "onesided", "rehandshake", "rehandshake"])
        cda, cdb = (rng.choice([0, 5, 5, 60]), rng.choice([0, 5, 5, 60])) if style == "rehandshake" else (5, 5)
        last_hs = {0: hsa, 1: hsb}
        ops = []
        for _ in range(rng.randrange(1, 11)):
            who = 0 if style == "onesided" else rng.randrange(2)
            if style == "early":
                t = max(now[who], last[who] + rng.choice([0, 1, iv[who] // 2, iv[who] - 1]))
            else:
                t = max(now[who], last[who] + rng.choice([iv[who] - 1, iv[who], iv[who], iv[who] + 1, 2 * iv[who], 1, iv[who] // 2, 3 * iv[who] + 5]))
            group = [(who, t)]
            if style == "rehandshake" and rng.random() < 0.5:
                # one end, or both ends one after the other, take the peer's handshake again
                cd = {0: cda * NS, 1: cdb * NS}
                th = max(now[who], last_hs[who] + rng.choice([cd[who], cd[who] + 1, max(0, cd[who] - 1), 2 * cd[who] + 3, 0]))
                group = [(2 + who, th)]
                if rng.random() < 0.7:
                    o = 1 - who
                    group.append((2 + o, max(now[o], last_hs[o] + rng.choice([cd[o], cd[o] + 1, 2 * cd[o] + 3, max(0, cd[o] - 1)]))))
            if style == "paired":
                group.append((1 - who, max(now[1 - who], t + rng.choice([0, 0, 1, -1]))))
            for w, tt in group:
                if w >= 2:
                    now[w - 2] = tt
                    cdw = (cda if w == 2 else cdb) * NS
                    if tt - last_hs[w - 2] >= cdw:
                        last_hs[w - 2] = tt
                        last[w - 2] = tt
                else:
                    now[w] = tt
                    if tt - last[w] >= iv[w]:
                        last[w] = tt
                ops.append((w, tt))
        cases.append(mode1(rng, iva, ivb, hsa, hsb, ops[:10], style, cda, cdb))
    for _ in range(n // 2):
        shared = [rng.randrange(256) for _ in range(32)]
        material = [rng.randrange(256) for _ in range(rng.choice([0, 1, 8, 16, 40]))]
        ivs = rng.choice([0, 1, 5, 60])
        t0 = base + rng.randrange(10 ** 9)
        ints = [2] + shared + [len(material)] + material + [ivs] + u64(t0)
        k = rng.randrange(1, 9)
        ints.append(k)
        last = t0
        for _ in range(k):
            t = last + rng.choice([ivs * NS - 1, ivs * NS, ivs * NS + 1, 0, -5, 2 * ivs * NS + 7, 1])
            t = max(t, 1)
            if t - last >= ivs * NS:
                last = t
            ints += u64(t)
        cases.append({"ints": ints, "tag": "keymanager"})
    return cases


def judge(case, impl, model):
    ints = case["ints"]
    if impl and impl[0] in (-2000, -1000):
        return {"fail": f"C39|abnormal|{impl[:2]}"}
    if ints[0] == 2:
        p = 1 + 32
        mlen = ints[p]
        p += 1 + mlen
        ivs = ints[p]
        t0 = (ints[p + 1] << 32) | ints[p + 2]
        k = ints[p + 3]
        p += 4
        if len(impl) != 32 + k * 34:
            return {"fail": "C39|output-shape"}
        # the property is about the two ends; a lone KeyManager is compared with the model only (correspondence)
        return {"nontrivial": any(impl[32 + 34 * i] for i in range(k))}
    if ints[0] != 1:
        return {"nontrivial": False}
    if impl and impl[0] in (-8, -9, -10):
        return {"fail": f"C39|setup-failed|{impl[0]}"}
    p = 5 + 64
    iva, ivb, cda, cdb = ints[p:p + 4]
    hsa = (ints[p + 4] << 32) | ints[p + 5]
    hsb = (ints[p + 6] << 32) | ints[p + 7]
    n = ints[p + 8]
    p += 9
    ops = [(ints[p + 3 * i], (ints[p + 3 * i + 1] << 32) | ints[p + 3 * i + 2]) for i in range(n)]
    if len(impl) != 2 + OBS * (n + 1):
        return {"fail": "C39|output-shape"}
    if impl[0] != ints[1] or impl[1] != ints[2]:
        return {"fail": "C39|identity-scalar-not-as-predicted"}

    def obs(i):
        o = impl[2 + OBS * i: 2 + OBS * (i + 1)]
        return {"rot": o[0], "ka": o[1:33], "kb": o[33:65], "la": o[65:97], "lb": o[97:129],
                "oa": o[129], "ob": o[130], "dab": o[131], "dba": o[132]}

    def agree(o):
        return o["la"] == o["lb"] and o["ka"] == o["kb"] and o["la"] == o["ka"] and o["dab"] == 1 and o["dba"] == 1

    o0 = obs(0)
    if not (o0["oa"] and o0["ob"]):
        return {"fail": "C39|session-not-open-after-handshake"}
    if not agree(o0):
        return {"fail": "C39|keys-differ-right-after-handshake"}
    last = {0: hsa, 1: hsb}
    iv = {0: clamp_iv(iva) * NS, 1: clamp_iv(ivb) * NS}
    prev_agree = True
    rotated_any = False
    fails = []
    last_hs = {0: hsa, 1: hsb}
    cd = {0: cda * NS, 1: cdb * NS}
    fresh = {0: True, 1: True}      # has this end registered the handshake key since the last rotation anywhere?
    for i, (who, t) in enumerate(ops):
        o = obs(i + 1)
        if who >= 2:
            w = who - 2
            if not o["rot"]:
                fails.append("C39|repeated-valid-handshake-refused")
            if t - last_hs[w] >= cd[w]:
                last_hs[w] = t
                last[w] = t
                fresh[w] = True
            a = agree(o)
            both_open = o["oa"] and o["ob"]
            if both_open and fresh[0] and fresh[1] and not a:
                fails.append("C39|ends-differ-although-both-re-established-the-session")
            if both_open and not a and prev_agree:
                fails.append("C39|desync-caused-by-a-repeated-handshake")
            prev_agree = a or not both_open
            continue
        w = 0 if who == 0 else 1
        due = t - last[w] >= iv[w]
        if due:
            last[w] = t
        if o["rot"]:
            rotated_any = True
            fresh = {0: False, 1: False}
        both_open = o["oa"] and o["ob"]
        a = agree(o)
        if o["la"] == o["lb"] and o["ka"] == o["kb"] and o["la"] == o["ka"] and not (o["dab"] and o["dba"]):
            fails.append("C39|same-keys-but-message-does-not-open")
        if both_open and not a and prev_agree:
            # the disagreement appears here: is it the recorded cause (a rotation that was due on the acting node's clock)?
            fails.append(KNOWN if (o["rot"] and due) else "C39|desync-without-due-rotation")
        prev_agree = a or not both_open
    new = [f for f in fails if f != KNOWN]
    if new:
        return {"fail": new[0], "nontrivial": rotated_any}
    if fails:
        return {"fail": KNOWN, "nontrivial": rotated_any}
    return {"nontrivial": rotated_any}


def outcome_class(case, impl):
    if case["ints"][0] == 2:
        return "keymanager"
    if not impl or len(impl) < 2 + OBS:
        return "abnormal"
    n = (len(impl) - 2) // OBS
    o = impl[2 + OBS * (n - 1): 2 + OBS * n]
    return "agree-at-end" if o[65:97] == o[97:129] else "differ-at-end"
