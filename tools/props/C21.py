"""C21 -- announces change state only when admissible and within the throttle."""
ID = "C21"
FAMILY = "announce"
RULE = ("timed sequences of 5..60 ANNOUNCE messages from 1..3 peers given to the real Node::handle_announce under the virtual "
        "clock: real manifests issued by a second node, real PoW at difficulty 0, 4, 5, 6, 7 or 9 (a bad proof has exactly one zero bit too few, counted by the harness, not by the node); each message is valid or fails exactly "
        "one admission check (names another peer, empty URI, PoW one step off, version 2, undecodable manifest, other chunk id, "
        "fewer shards than the threshold, expired manifest, an assigned shard the manifest lacks); gaps of 0, 1, interval-1, "
        "interval, window-1, window, 119..121, 179..181 s so that throttle, failure window and lock-out edges are hit; throttle "
        "settings interval 1..30 s, burst 1..4, window interval..180 s. Oracle (independent of the model, python, history "
        "level): a message may change state only if it is valid, its sender is not inside a lock-out (180 s after the third "
        "failure inside 120 s), and -- over the accepted-through-the-throttle times reconstructed from the history sizes -- "
        "no two are closer than the interval and no more than the burst limit fall inside one window. non-trivial = a sequence "
        "with an accepted announce and a throttled or locked one; distinct = distinct implementation outputs")
ASSUMPTIONS = ["each content check is represented in the model by its verdict; the checks themselves are C15-C19 / C03",
               "throttle settings are generated inside the sanitised ranges (C02)"]
TRUSTED = ["extraction: ExtrOcamlBasic only", "harness/impl_announce.cpp (own NodeTestAccess friend), link-time replacement of the clocks"]
TIMEOUT = 1200


def gen_seq(rng, n):
    mi = rng.choice([1, 2, 5, 15, 30])
    bl = rng.choice([1, 2, 3, 4])
    bw = rng.choice([mi, mi + 1, 2 * mi, 60, 120, 180])
    bw = max(bw, mi)
    d = rng.choice([0, 4, 5, 6, 7, 9])
    peers = rng.choice([1, 1, 2, 3])
    ev = []
    for _ in range(n):
        gap = rng.choice([0, 0, 1, mi - 1, mi, mi + 1, bw - 1, bw, bw + 1, 59, 60, 119, 120, 121, 179, 180, 181, rng.randrange(0, 200)])
        gap = max(0, gap)
        r = rng.random()
        kind = 0 if r < 0.55 else rng.choice([1, 2, 3, 5, 6, 7, 8, 9])
        ver = 4 if rng.random() < 0.9 else rng.choice([2, 3])
        ev += [gap, rng.randrange(peers), kind, ver]
    return [mi, bl, bw, d] + ev


def generate(rng, tier):
    n = {"quick": 80, "search": 150, "thorough": 1500}[tier]
    cases = []
    # three failures inside 120 s, then probes at +179 / +180 / +181 s
    for last in (179, 180, 181):
        cases.append({"ints": [1, 4, 60, 0, 0, 0, 5, 4, 50, 0, 5, 4, 69, 0, 5, 4, last, 0, 0, 4, 0, 0, 0, 4], "tag": "lockout-edge"})
    cases.append({"ints": [1, 4, 60, 0, 0, 0, 5, 4, 60, 0, 5, 4, 61, 0, 5, 4, 1, 0, 0, 4], "tag": "failure-window-edge"})
    for _ in range(n):
        cases.append({"ints": gen_seq(rng, rng.choice([5, 12, 30, 60])), "tag": "sequence"})
    return cases


def judge(case, impl, model):
    ints = case["ints"]
    if impl and impl[0] in (-2000, -1000):
        return {"fail": f"C21|abnormal|{impl[:2]}"}
    mi, bl, bw, d = ints[:4]
    ev = [ints[4 + 4 * i:8 + 4 * i] for i in range((len(ints) - 4) // 4)]
    if len(impl) != 4 * len(ev):
        return {"fail": "C21|output-shape"}
    now = 1000
    passed = {}       # peer -> times that went through the throttle (reconstructed)
    failures = {}     # peer -> failure times since the last success / lock-out
    lockout = {}      # peer -> deadline
    prev_hist = {}
    saw_acc = saw_rej = False
    for i, (gap, s, kind, ver) in enumerate(ev):
        now += max(0, gap)
        acc, hsz, fsz, lk = impl[4 * i:4 * i + 4]
        valid = kind == 0 or (kind == 3 and d == 0)
        if d > 0 and ver < 3:
            valid = False
        locked = s in lockout and now < lockout[s]
        if acc:
            saw_acc = True
            if not valid:
                return {"fail": f"C21|inadmissible-announce-changed-state|kind={kind}"}
            if locked:
                return {"fail": "C21|locked-out-peer-changed-state"}
        else:
            saw_rej = True
        # did it go through the throttle?  Only messages that are not locked out and pass the first three checks reach
        # it; for those the history (after pruning to the window) grew by one iff the throttle let them through
        reaches = (not locked) and kind not in (1, 2) and not (d > 0 and (ver < 3 or kind == 3))
        ph = [t for t in passed.get(s, []) if t >= now - bw]
        went = reaches and hsz == len(ph) + 1
        if reaches and hsz not in (len(ph), len(ph) + 1):
            return {"fail": "C21|throttle-history-inconsistent"}
        if went:
            if ph and now - ph[-1] < mi:
                return {"fail": "C21|throttle-spacing-violated"}
            if len(ph) + 1 > bl:
                return {"fail": "C21|throttle-burst-exceeded"}
            passed.setdefault(s, []).append(now)
        if acc and not went:
            return {"fail": "C21|accepted-without-passing-throttle"}
        # failure bookkeeping (reference): rejected and not locked -> a failure
        if locked:
            continue
        if s in lockout and now >= lockout[s]:
            del lockout[s]
        if acc:
            failures[s] = []
        else:
            f = [t for t in failures.get(s, []) if now - t <= 120] + [now]
            if len(f) >= 3:
                lockout[s] = now + 180
                f = []
            failures[s] = f
        # the node's lock-out must be at least what the reference demands
        if s in lockout and lk != lockout[s]:
            return {"fail": "C21|lockout-not-applied"}
    return {"nontrivial": saw_acc and saw_rej}
