"""C11 -- stored content round-trips and tampered replicas are never accepted."""
import hashlib
import importlib.util
import sys
from pathlib import Path

sys.path.insert(0, str(Path(__file__).resolve().parents[1]))
from ephverif import srcextract as sx  # noqa: E402
from ephverif.paths import BUILD, REPO  # noqa: E402

ID = "C11"
FAMILY = "content"
GEN = BUILD / "gen"
HARNESS_FLAGS = ("-I", str(GEN))


def _load(name):
    spec = importlib.util.spec_from_file_location(name + "_for_c11", Path(__file__).with_name(name + ".py"))
    mod = importlib.util.module_from_spec(spec)
    spec.loader.exec_module(mod)
    return mod


_c10 = _load("C10")
_c19 = _load("C19")

RULE = ("a real Node stores payloads of 0, 1, 63, 64, 65, 127, 128, 129, 1000 and random lengths under random chunk ids with "
        "shard configurations (threshold, total) from (0,0) (1,1) (1,3) (2,3) (3,5) (5,5) (2,255) (16,32); the chunk key, the seed "
        "of the nonce generator and the sharing coefficients come from a scripted std::random_device (link-time "
        "replacement). Read back: the held bytes, the manifest (hash, nonce, threshold, shares), the local fetch. Then the "
        "manifest and the held bytes -- untouched, or with one corruption: a ciphertext / hash / nonce / share byte xor-ed, the "
        "threshold changed (0, t-1, t+1, 255), a share index duplicated, the ciphertext cut or extended -- go to a second "
        "real Node through receive_chunk and to the CLI's decrypt_chunk_with_manifest (copied verbatim from the current "
        "src/main.cpp). Oracle (independent of the model: hashlib, a python ChaCha20, the python GF(256) Lagrange of C10): "
        "the held bytes are ChaCha20(key reconstructed from the manifest's shares, nonce, counter = first four id bytes LE) "
        "of the payload; local fetch, replica import and CLI decryption of the untouched replica return the payload; a "
        "replica whose decryption does not hash to the manifest hash is refused by both, is not stored and not returned by "
        "the receiver's lookup. The same replica is also given to the node that holds the chunk, whose own lookup must go on returning the payload (a refusal leaves no trace). In a third of the cases the same chunk id is then stored a second time (new payload, key, nonce, shares with the same indices) and read back locally and through a second replica import on the node that holds the first. non-trivial = a corrupted replica or a second store; distinct = distinct outputs")
ASSUMPTIONS = ["std::random_device is an input; mt19937_64 + uniform_int_distribution<uint32_t>(0,255) for the nonce is predicted in "
               "python (top byte of each 64-bit draw)",
               "CryptoManager replaces an all-zero key by a random one: not modelled (a reconstructed all-zero key has probability 2^-256)",
               "SHA-256 collision resistance is what turns 'the hash matches' into 'the bytes are the stored ones'"]
TRUSTED = ["extraction: ExtrOcamlBasic only", "harness/impl_content.cpp (link-time std::random_device)",
           "tools/props/C11.py function extractor for decrypt_chunk_with_manifest", "python hashlib / ChaCha20 / GF(256) as oracle"]
TIMEOUT = 900


def prebuild():
    GEN.mkdir(parents=True, exist_ok=True)
    main = (REPO / "src/main.cpp").read_text(errors="replace")
    fn = sx.functions(main, ["decrypt_chunk_with_manifest"])[0]
    content = ("// GENERATED from the current src/main.cpp by tools/props/C11.py -- not committed\n#pragma once\n"
               "#include <optional>\n#include <span>\n#include <vector>\n" + fn + "\n")
    out = GEN / "c11_cli.hpp"
    if not out.exists() or out.read_text() != content:
        out.write_text(content)


def lp(b):
    return [len(b)] + list(b)


def rotl(v, n):
    return ((v << n) & 0xFFFFFFFF) | (v >> (32 - n))


def chacha_block(key, counter, nonce):
    import struct
    st = [0x61707865, 0x3320646e, 0x79622d32, 0x6b206574] + list(struct.unpack("<8I", key)) + [counter & 0xFFFFFFFF] + list(struct.unpack("<3I", nonce))
    w = st[:]

    def qr(a, b, c, d):
        w[a] = (w[a] + w[b]) & 0xFFFFFFFF; w[d] = rotl(w[d] ^ w[a], 16)
        w[c] = (w[c] + w[d]) & 0xFFFFFFFF; w[b] = rotl(w[b] ^ w[c], 12)
        w[a] = (w[a] + w[b]) & 0xFFFFFFFF; w[d] = rotl(w[d] ^ w[a], 8)
        w[c] = (w[c] + w[d]) & 0xFFFFFFFF; w[b] = rotl(w[b] ^ w[c], 7)
    for _ in range(10):
        qr(0, 4, 8, 12); qr(1, 5, 9, 13); qr(2, 6, 10, 14); qr(3, 7, 11, 15)
        qr(0, 5, 10, 15); qr(1, 6, 11, 12); qr(2, 7, 8, 13); qr(3, 4, 9, 14)
    return struct.pack("<16I", *[(w[i] + st[i]) & 0xFFFFFFFF for i in range(16)])


def chacha(key, nonce, counter, data):
    out = bytearray()
    for i in range(0, len(data), 64):
        ks = chacha_block(key, counter + i // 64, nonce)
        out += bytes(a ^ b for a, b in zip(data[i:i + 64], ks))
    return bytes(out)


def nonce_from_seed(seed):
    g = _c19.MT64(seed)
    return bytes(g() >> 56 for _ in range(12))


def generate(rng, tier):
    n = {"quick": 160, "search": 300, "thorough": 2000}[tier]
    cases = []
    shapes = [(0, 0), (1, 1), (1, 3), (2, 3), (3, 5), (5, 5), (2, 255), (16, 32), (3, 2)]
    sizes = [0, 1, 63, 64, 65, 127, 128, 129, 1000]
    for i in range(n):
        t, tot = rng.choice(shapes)
        size = sizes[i % len(sizes)] if i < 3 * len(sizes) else rng.choice(sizes + [rng.randrange(0, 600)])
        data = bytes(rng.randrange(256) for _ in range(size))
        cid = [rng.randrange(256) for _ in range(32)]
        if rng.random() < 0.2:
            cid[0:4] = rng.choice([[0, 0, 0, 0], [255, 255, 255, 255], [254, 255, 255, 255]])   # counter 0 / 2^32-1: block counter wraps
        key = [rng.randrange(256) for _ in range(32)]
        seed = rng.randrange(2 ** 32)
        te = max(1, t); ne = max(te, tot)
        rnd = [rng.randrange(256) for _ in range(32 * (te - 1))]
        if rng.random() < 0.15:
            rnd = [0] * len(rnd)                          # degenerate polynomial
        r = rng.random()
        if i % 4 == 0 or r < 0.2:
            kind, pos, val = 0, 0, 0
        else:
            kind = rng.choice([1, 1, 2, 3, 4, 4, 5, 6, 7, 8])
            val = rng.choice([1, 2, 0x80, 0xFF, rng.randrange(1, 256)])
            if kind == 1:
                pos = rng.choice([0, max(0, size - 1), rng.randrange(max(1, size))])
            elif kind == 2:
                pos = rng.randrange(32)
            elif kind == 3:
                pos = rng.randrange(12)
            elif kind == 4:
                pos = rng.randrange(32 * ne)     # any share, also one beyond the threshold (ignored by combine)
            elif kind == 5:
                val = rng.choice([0, te - 1, te + 1, ne, min(255, ne + 1), 255])
                pos = 0
            elif kind == 6:
                pos, val = rng.randrange(ne), rng.randrange(ne)
            elif kind == 7:
                pos = rng.choice([0, max(0, size - 1), size // 2])
            elif kind == 8:
                pos, val = 0, rng.choice([1, 64])
        ints = cid + [t, tot] + lp(data) + key + list(nonce_from_seed(seed)) + lp(rnd) + [kind, pos, val, seed]
        tag = "plain" if kind == 0 else f"tamper-{kind}"
        if rng.random() < 0.35 and ne <= 255:
            # the same chunk id is stored a second time (same shard configuration, so the share indices repeat)
            data2 = bytes(rng.randrange(256) for _ in range(rng.choice([size, size, 0, 70, rng.randrange(0, 300)])))
            key2 = [rng.randrange(256) for _ in range(32)]
            seed2 = rng.randrange(2 ** 32)
            rnd2 = [rng.randrange(256) for _ in range(32 * (te - 1))]
            ints += [1] + lp(data2) + key2 + list(nonce_from_seed(seed2)) + lp(rnd2) + [seed2]
            tag += "+restore"
        else:
            ints += [0]
        cases.append({"ints": ints, "tag": tag})
    return cases


def judge(case, impl, model):
    ints = case["ints"]
    if impl and impl[0] == -2000:
        return {"fail": f"C11|abnormal|{impl[:2]}"}
    cid = bytes(ints[:32]); t, tot = ints[32], ints[33]
    p = 34
    n = ints[p]; data = bytes(ints[p + 1:p + 1 + n]); p += 1 + n
    key = bytes(ints[p:p + 32]); p += 32
    nonce = bytes(ints[p:p + 12]); p += 12
    n = ints[p]; p += 1 + n
    kind, pos, val = ints[p:p + 3]
    again = ints[p + 4] == 1
    data2 = None
    if again:
        p2 = p + 5
        n2 = ints[p2]; data2 = bytes(ints[p2 + 1:p2 + 1 + n2])
    te = max(1, t); ne = max(te, tot)
    if impl[:1] == [-1000]:
        # store itself threw: legitimate only for share counts the field cannot carry
        return {"nontrivial": False} if ne > 255 else {"fail": "C11|store-threw"}
    q = 0
    try:
        hl = impl[q]; held = bytes(impl[q + 1:q + 1 + hl]); q += 1 + hl
        mhash = bytes(impl[q:q + 32]); q += 32
        mnonce = bytes(impl[q:q + 12]); q += 12
        mt, mn, ns = impl[q:q + 3]; q += 3
        shares = []
        for _ in range(ns):
            shares.append((impl[q], bytes(impl[q + 1:q + 33]))); q += 33

        def ropt():
            nonlocal q
            if impl[q] == -1000:
                q += 2; return "throw"
            if impl[q] == 0:
                q += 1; return None
            ln = impl[q + 1]; b = bytes(impl[q + 2:q + 2 + ln]); q += 2 + ln; return b
        local = ropt(); recv = ropt()
        stored = impl[q]; q += 1
        bfetch = ropt(); cli = ropt()
        arecv = ropt(); afetch = ropt()        # the same replica given to the node that holds the chunk, and its lookup afterwards
        second = None
        if again:
            hl = impl[q]; held2 = bytes(impl[q + 1:q + 1 + hl]); q += 1 + hl
            second = (held2, ropt(), ropt(), ropt())
    except Exception:
        return {"fail": "C11|output-shape"}
    counter = int.from_bytes(cid[:4], "little")
    # the key the manifest's shares reconstruct (python Lagrange at 0 over GF(256), first mt shares)
    pts = shares[:mt]
    rec = bytes(_c10.plagrange([(x, v[b]) for x, v in pts]) for b in range(32)) if len({x for x, _ in pts}) == len(pts) and all(x for x, _ in pts) else None
    if mhash != hashlib.sha256(data).digest():
        return {"fail": "C11|manifest-hash-is-not-the-hash-of-the-payload"}
    if rec is None or held != chacha(rec, mnonce, counter, data):
        return {"fail": "C11|held-bytes-are-not-the-encryption-under-the-key-the-shares-reconstruct"}
    if local != data:
        return {"fail": "C11|local-lookup-does-not-return-the-payload"}
    if afetch != data:
        return {"fail": "C11|holder-lookup-changed-by-a-replica-import" + ("" if isinstance(arecv, bytes) else "-that-was-refused"), "nontrivial": True}
    if second is not None:
        held2, local2, recv2, bfetch2 = second
        if local2 != data2:
            return {"fail": "C11|local-lookup-after-second-store-does-not-return-the-new-payload", "nontrivial": True}
        if recv2 != data2 or bfetch2 != data2:
            return {"fail": "C11|replica-import-after-second-store-does-not-return-the-new-payload", "nontrivial": True}
    res = {"nontrivial": kind != 0 or again}
    if kind == 0:
        if recv != data or cli != data or bfetch != data or stored != 1:
            res["fail"] = "C11|untouched-replica-not-recovered"
        return res
    # a corrupted replica: whatever was accepted must hash to the manifest's (possibly corrupted) hash
    want_hash = bytearray(mhash)
    if kind == 2:
        want_hash[pos] ^= val & 0xFF
    for name, got in (("receive_chunk", recv), ("cli", cli), ("receiver-lookup", bfetch)):
        if isinstance(got, bytes) and hashlib.sha256(got).digest() != bytes(want_hash):
            res["fail"] = f"C11|{name}-returned-bytes-that-do-not-match-the-manifest-hash"
            return res
    if (recv is None or recv == "throw") and (stored != 0 or isinstance(bfetch, bytes)):
        res["fail"] = "C11|refused-replica-was-stored"
    return res
