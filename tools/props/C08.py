"""C08 -- SHA-256 and HMAC-SHA256 match the standards for every input."""
import hashlib, hmac as pyhmac

ID = "C08"
FAMILY = "sha"
RULE = ("mode 1: message lengths concentrated on the padding boundaries (0,1,55,56,57,63,64,65,119,120,127,128,...) "
        "fed in a random split of update calls; mode 4: three messages of 2^29-1, 2^29 and 2^29+5 bytes (bit length across 2^32), a pattern generated on both sides and compared with hashlib only -- the list-based model cannot evaluate them;  (empty updates included; all split points for short messages in "
        "thorough); mode 2: HMAC with keys of 0,1,32,63,64,65,131 bytes, half of them followed at once by the same data under a key one bit away and under the first key again; mode 3: verify with the correct tag, 31/33 "
        "bytes, every single-bit flip, several tag bytes changed so that the differences cancel under + / xor. Oracle: python hashlib/hmac (independent third implementation). "
        "non-trivial = every case; distinct = distinct implementation outputs")
ASSUMPTIONS = ["messages shorter than 2^61 bytes for agreement with FIPS proper (the theorem itself needs no bound)"]
TRUSTED = ["extraction: ExtrOcamlBasic only", "harness/impl_sha.cpp", "python hashlib as oracle"]

LENS = [0, 1, 2, 3, 54, 55, 56, 57, 62, 63, 64, 65, 66, 118, 119, 120, 121, 127, 128, 129, 191, 192, 193, 255, 256, 257]


def lp(b):
    return [len(b)] + list(b)


def split(rng, msg):
    parts, i = [], 0
    while i < len(msg):
        r = rng.random()
        if r < 0.15:
            parts.append([])
            continue
        k = rng.choice([1, 1, 2, 7, 8, 31, 32, 33, 55, 56, 63, 64, 65, 128, len(msg)])
        parts.append(msg[i:i + k]); i += k
    if rng.random() < 0.3:
        parts.append([])
    return parts


def generate(rng, tier):
    n = {"quick": 150, "search": 250, "thorough": 2500}[tier]
    cases = []
    # messages whose bit length reaches 2^32 (2^29 bytes): a pattern generated on both sides, fed in 1 MiB pieces
    for total in ([2 ** 29 - 1, 2 ** 29, 2 ** 29 + 5] if tier != "search" else [2 ** 29]):
        cases.append({"ints": [4, total, 1 << 20, rng.randrange(256)], "tag": "long-message"})
    for L in LENS:
        msg = [rng.randrange(256) for _ in range(L)]
        cases.append({"ints": [1, 1] + lp(msg), "tag": "oneshot"})
        parts = split(rng, msg)
        cases.append({"ints": [1, len(parts)] + sum((lp(p) for p in parts), []), "tag": "split"})
    if tier == "thorough":
        for L in range(0, 71):
            msg = [rng.randrange(256) for _ in range(L)]
            for cut in range(L + 1):
                cases.append({"ints": [1, 2] + lp(msg[:cut]) + lp(msg[cut:]), "tag": "allsplits"})
    for i in range(n):
        r = rng.random()
        if r < 0.4:
            L = rng.choice(LENS + [rng.randrange(0, 700)])
            msg = [rng.randrange(256) for _ in range(L)]
            parts = split(rng, msg)
            cases.append({"ints": [1, len(parts)] + sum((lp(p) for p in parts), []), "tag": "split"})
        elif r < 0.7:
            key = [rng.randrange(256) for _ in range(rng.choice([0, 1, 20, 32, 63, 64, 65, 100, 131]))]
            data = [rng.randrange(256) for _ in range(rng.choice(LENS))]
            cases.append({"ints": [2] + lp(key) + lp(data), "tag": "hmac"})
            if key and rng.random() < 0.5:
                # straight afterwards in the same process: the same data under a key one bit away (same length, long common
                # prefix), then the first key again
                k2 = list(key); k2[rng.choice([0, min(8, len(key) - 1), len(key) - 1, rng.randrange(len(key))])] ^= 1 << rng.randrange(8)
                cases.append({"ints": [2] + lp(k2) + lp(data), "tag": "hmac-related-key"})
                cases.append({"ints": [2] + lp(key) + lp(data), "tag": "hmac-related-key"})
        else:
            key = [rng.randrange(256) for _ in range(rng.choice([0, 32, 64, 65, 131]))]
            data = [rng.randrange(256) for _ in range(rng.choice([0, 1, 55, 64, 100]))]
            mac = list(pyhmac.new(bytes(key), bytes(data), hashlib.sha256).digest())
            k = rng.randrange(9)
            if k >= 6:
                kk = rng.choice([2, 2, 3, 4, 8, 32])
                idx = rng.sample(range(32), kk)
                if k == 6:
                    d0 = rng.randrange(1, 256); diffs = [d0, 256 - d0] + [0] * (kk - 2)
                elif k == 7:
                    d0 = rng.choice([0x80, rng.randrange(1, 256)]); diffs = [d0, d0] + [0] * (kk - 2)
                else:
                    diffs = [rng.randrange(1, 256) for _ in range(kk - 1)]
                    diffs.append((-sum(diffs)) % 256 or 128)
                for j, d in zip(idx, diffs):
                    mac[j] ^= d & 255
                tag = "verify-multi"
            elif k == 0:
                tag = "verify-good"
            elif k == 1:
                mac = mac[:31]; tag = "verify-31"
            elif k == 2:
                mac = mac + [rng.randrange(256)]; tag = "verify-33"
            elif k == 3:
                mac = []; tag = "verify-empty"
            else:
                j = rng.randrange(32); mac[j] ^= 1 << rng.randrange(8); tag = "verify-flip"
            cases.append({"ints": [3] + lp(key) + lp(data) + lp(mac), "tag": tag})
    return cases


def _parse_lp(ints, pos):
    n = ints[pos]
    return ints[pos + 1:pos + 1 + n], pos + 1 + n


def long_digest(total, seed):
    base = bytes((131 * i + seed) & 255 for i in range(256))
    h = hashlib.sha256()
    block = base * 4096
    full, rest = divmod(total, len(block))
    for _ in range(full):
        h.update(block)
    h.update((base * (rest // 256 + 1))[:rest])
    return list(h.digest())


def judge(case, impl, model):
    ints = case["ints"]
    if impl and impl[0] in (-2000, -1000):
        return {"fail": f"C08|abnormal|{impl[:2]}"}
    if ints[0] == 4:
        # too long for the list-based model to evaluate: this length is tied to the standard by the oracle alone (the theorem
        # c08_sha_streaming covers every length below 2^61 in the model)
        if impl != long_digest(ints[1], ints[3]):
            return {"fail": f"C08|sha-mismatch|long-message|bits>=2^32={ints[1] >= 2 ** 29}", "corr": True, "nontrivial": True}
        return {"corr": True, "nontrivial": True}
    if ints[0] == 1:
        pos, msg = 2, []
        for _ in range(ints[1]):
            b, pos = _parse_lp(ints, pos); msg += b
        want = list(hashlib.sha256(bytes(msg)).digest())
        if impl != want:
            return {"fail": f"C08|sha-mismatch|len%64={len(msg) % 64}|chunks={min(ints[1], 3)}"}
    elif ints[0] == 2:
        key, pos = _parse_lp(ints, 1); data, pos = _parse_lp(ints, pos)
        want = list(pyhmac.new(bytes(key), bytes(data), hashlib.sha256).digest())
        if impl != want:
            return {"fail": f"C08|hmac-mismatch|keylen>64={len(key) > 64}"}
    else:
        key, pos = _parse_lp(ints, 1); data, pos = _parse_lp(ints, pos); mac, pos = _parse_lp(ints, pos)
        want = 1 if mac == list(pyhmac.new(bytes(key), bytes(data), hashlib.sha256).digest()) else 0
        if impl != [want]:
            return {"fail": f"C08|verify-wrong|want={want}|maclen={len(mac)}"}
    return {}
