"""C19 -- proof-of-work checks accept exactly the nonces that meet the target."""
import hashlib
import struct
import sys
from pathlib import Path

sys.path.insert(0, str(Path(__file__).resolve().parents[1]))
from ephverif import srcextract as sx  # noqa: E402
from ephverif.paths import BUILD, REPO  # noqa: E402

ID = "C19"
FAMILY = "pow"
GEN = BUILD / "gen"
HARNESS_FLAGS = ("-I", str(GEN))
TIMEOUT = 900
RULE = ("modes 1/2: digests of the exact shape 0^k 1 x.. for every k in 0..256 crossed with difficulties around k "
        "(every (k,d) pair in thorough) through all three count_leading_zero_bits and digest_meets_difficulty, plus spans "
        "of 0..40 bytes; modes 3/4/5: the node handshake validator, the CLI validator, announce and store validators on "
        "random fields and on nonces produced by an independent python miner (so about half the cases are valid proofs at "
        "the tested difficulty and half are one bit short), each field perturbed in turn, and valid proofs whose nonce is 0, 1, 2^32 or 2^64-1 (the fields are mined instead); modes 6..9: the real solvers "
        "(solve_token_challenge, compute_handshake_pow, the CLI's compute_transport_pow, compute_announce_pow, "
        "compute_store_pow) at difficulties 0..7 -- the model replays the same candidate order from the generator outputs "
        "computed by a python mt19937_64. Oracle (independent of the model): hashlib.sha256 over a python re-statement of "
        "each field encoding; a validator must answer (d==0 or leading_zero_bits(digest) >= min(d,cap)); a solver's nonce "
        "must be accepted and be the first candidate in the solver's order. non-trivial = a case with d>0; distinct = "
        "distinct implementation outputs")
ASSUMPTIONS = ["std::mt19937_64 and uniform_int_distribution over the full 64-bit range are not modelled: their outputs are inputs "
               "of the model (computed by a python mt19937_64 in the generator; a wrong python generator would show as a "
               "correspondence disagreement on the unchanged tree)",
               "field lengths below 2^64 (2^32 for the store filename) for injectivity of the encodings"]
TRUSTED = ["extraction: ExtrOcamlBasic only", "tools/ephverif/srcextract.py (verbatim copy of main.cpp / StoreProof.cpp functions by brace matching)",
           "harness/impl_pow.cpp (#include of src/core/Node.cpp)", "python hashlib + python mt19937_64 as oracle"]
M64 = (1 << 64) - 1


def prebuild():
    GEN.mkdir(parents=True, exist_ok=True)
    main = (REPO / "src/main.cpp").read_text(errors="replace")
    store = (REPO / "src/security/StoreProof.cpp").read_text(errors="replace")
    cli = sx.functions(main, ["count_leading_zero_bits", "to_big_endian_bytes", "update_length_prefixed",
                              "transport_handshake_digest", "transport_pow_valid", "compute_transport_pow"])
    cli_const = sx.constant(main, "kTransportPowMaxAttempts")
    st = sx.functions(store, ["count_leading_zero_bits"])
    content = ("// GENERATED from the current sources of the repository by tools/props/C19.py -- not committed\n#pragma once\n"
               "#include <array>\n#include <cstdint>\n#include <limits>\n#include <optional>\n#include <random>\n#include <span>\n"
               "#include \"ephemeralnet/Types.hpp\"\n#include \"ephemeralnet/crypto/Sha256.hpp\"\n"
               "namespace gen_cli {\n" + cli_const + "\n" + "\n".join(cli) + "\n}\n"
               "namespace gen_store {\n" + "\n".join(st) + "\n}\n")
    out = GEN / "c19_pow.hpp"
    if not out.exists() or out.read_text() != content:
        out.write_text(content)


# ---- independent oracle -----------------------------------------------------------------------------
class MT64:
    def __init__(self, seed):
        self.mt = [0] * 312
        self.mt[0] = seed & M64
        for i in range(1, 312):
            self.mt[i] = (6364136223846793005 * (self.mt[i - 1] ^ (self.mt[i - 1] >> 62)) + i) & M64
        self.i = 312

    def __call__(self):
        if self.i >= 312:
            mt = self.mt
            for i in range(312):
                x = (mt[i] & 0xFFFFFFFF80000000) | (mt[(i + 1) % 312] & 0x7FFFFFFF)
                xa = x >> 1
                if x & 1:
                    xa ^= 0xB5026F5AA96619E9
                mt[i] = mt[(i + 156) % 312] ^ xa
            self.i = 0
        y = self.mt[self.i]
        self.i += 1
        y ^= (y >> 29) & 0x5555555555555555
        y ^= (y << 17) & 0x71D67FFFEDA60000
        y ^= (y << 37) & 0xFFF7EEE000000000
        y ^= y >> 43
        return y & M64


def be8(v):
    return struct.pack(">Q", v & M64)


def lzb(dg):
    n = 0
    for b in dg:
        if b == 0:
            n += 8
            continue
        return n + (8 - b.bit_length())
    return n


def hs_pre(i, r, pub, nonce):
    return be8(len(i)) + bytes(i) + be8(len(r)) + bytes(r) + be8(pub) + be8(nonce)


def an_pre(a, nonce):
    c, p, ep, uri, sh, ttl = a
    out = b""
    for f in (c, p, ep, uri, sh):
        out += be8(len(f)) + bytes(f)
    return out + be8(ttl) + be8(nonce)


def st_pre(c, size, fn, nonce):
    return bytes(c) + be8(size) + struct.pack(">I", min(len(fn), 0xFFFFFFFF)) + bytes(fn) + be8(nonce)


def tk_pre(c, h, ep, nonce):
    return bytes(c) + bytes(h) + bytes(ep) + be8(nonce)


def H(b):
    return hashlib.sha256(b).digest()


def mine(pre, d, start, want_valid, limit=4096):
    """first nonce >= start (wrapping) whose digest has >= d zero bits (want_valid) / exactly d-1 (not want_valid)"""
    for k in range(limit):
        n = (start + k) & M64
        z = lzb(H(pre(n)))
        if want_valid and z >= d:
            return n
        if not want_valid and z == d - 1:
            return n
    return start


def u64(v):
    return [(v >> 32) & 0xFFFFFFFF, v & 0xFFFFFFFF]


def lp(b):
    return [len(b)] + list(b)


def rid(rng):
    return [rng.randrange(256) for _ in range(32)]


def rann(rng):
    ep = bytes(rng.randrange(32, 127) for _ in range(rng.choice([0, 1, 9, 14, 40])))
    uri = bytes(rng.randrange(32, 127) for _ in range(rng.choice([0, 1, 30, 63, 64, 65, 200])))
    sh = bytes(rng.randrange(256) for _ in range(rng.choice([0, 1, 2, 5, 16])))
    ttl = rng.choice([0, 1, 60, 3600, 86400, M64, (1 << 63), rng.randrange(1 << 64)])
    return (rid(rng), rid(rng), ep, uri, sh, ttl)


def ann_ints(a):
    c, p, ep, uri, sh, ttl = a
    return list(c) + list(p) + lp(ep) + lp(uri) + lp(sh) + u64(ttl)


def generate(rng, tier):
    n = {"quick": 60, "search": 120, "thorough": 1200}[tier]
    cases = []
    # --- counters: 0^k 1 x...
    for k in range(0, 257):
        dg = [0] * 32
        if k < 256:
            dg[k // 8] = (0x80 >> (k % 8)) | (rng.randrange(256) & ((0x80 >> (k % 8)) - 1))
            for j in range(k // 8 + 1, 32):
                dg[j] = rng.randrange(256)
        ds = range(0, 256) if tier == "thorough" else sorted({0, 1, 7, 8, 9, 24, 255, k, max(0, k - 1), min(255, k + 1)})
        for d in ds:
            cases.append({"ints": [1] + dg + [d], "tag": "clz32"})
    for L in list(range(0, 6)) + [31, 33, 40]:
        for _ in range(6 if tier != "thorough" else 60):
            z = rng.randrange(0, L + 1)
            dg = [0] * z + [rng.randrange(256) for _ in range(L - z)]
            d = rng.choice([0, 1, 7, 8, 9, 8 * z, 8 * z + 1, 8 * z + 7, 8 * L, min(255, 8 * L + 1), 255, rng.randrange(256)])
            cases.append({"ints": [2] + lp(dg) + [min(255, d)], "tag": "clzspan"})
    # --- validators
    for _ in range(n):
        d = rng.choice([0, 1, 2, 3, 4, 5, 6, 7, 8, 9, 10])
        kind = rng.randrange(3)
        good = rng.random() < 0.5
        s0 = rng.randrange(1 << 64) if rng.random() < 0.8 else M64 - rng.randrange(3)
        if kind == 0:
            i, r = rid(rng), rid(rng)
            pub = rng.choice([0, 1, 2, 5, 0xFFFFFFFF, rng.randrange(1 << 32)])
            nonce = mine(lambda x: hs_pre(i, r, pub, x), d, s0, good) if d else s0
            cases.append({"ints": [3] + i + r + [pub] + u64(nonce) + [d], "tag": "hs-valid"})
            if rng.random() < 0.5:   # perturb one field: the same nonce must be judged against the new digest
                j = rng.randrange(3)
                i2, r2, pub2 = list(i), list(r), pub
                if j == 0:
                    i2[rng.randrange(32)] ^= 1 << rng.randrange(8)
                elif j == 1:
                    r2[rng.randrange(32)] ^= 1 << rng.randrange(8)
                else:
                    pub2 = (pub ^ (1 << rng.randrange(32)))
                cases.append({"ints": [3] + i2 + r2 + [pub2] + u64(nonce) + [d], "tag": "hs-perturbed"})
                cases.append({"ints": [3] + r + i + [pub] + u64(nonce) + [d], "tag": "hs-swapped"})
        elif kind == 1:
            a = rann(rng)
            nonce = mine(lambda x: an_pre(a, x), d, s0, good) if d else s0
            cases.append({"ints": [4] + ann_ints(a) + u64(nonce) + [d], "tag": "ann-valid"})
            if rng.random() < 0.5:
                c, p, ep, uri, sh, ttl = a
                j = rng.randrange(5)
                if j == 0 and ep and uri:   # move a byte across a field boundary: length prefixes must bind it
                    a2 = (c, p, ep[:-1], ep[-1:] + uri, sh, ttl)
                elif j == 1:
                    a2 = (c, p, ep, uri, sh + b"\x00", ttl)
                elif j == 2:
                    a2 = (c, p, ep, uri, sh, (ttl + 1) & M64)
                elif j == 3:
                    a2 = (p, c, ep, uri, sh, ttl)
                else:
                    a2 = (c, p, uri, ep, sh, ttl)
                cases.append({"ints": [4] + ann_ints(a2) + u64(nonce) + [d], "tag": "ann-perturbed"})
        else:
            c = rid(rng)
            size = rng.choice([0, 1, 4096, (1 << 32), M64, rng.randrange(1 << 40)])
            fn = bytes(rng.randrange(1, 256) for _ in range(rng.choice([0, 0, 1, 8, 55, 255])))
            dd = rng.choice([d, d, 25, 30, 255]) if good else d
            eff = min(dd, 24)
            nonce = mine(lambda x: st_pre(c, size, fn, x), min(eff, 10), s0, good) if dd else s0
            cases.append({"ints": [5] + c + u64(size) + lp(fn) + u64(nonce) + [dd], "tag": "store-valid"})
    # --- special nonces (0, 1, 2^64-1, 2^32) that ARE valid proofs: the fields are mined instead of the nonce, so a
    #     validator that treats some nonce value specially (e.g. "0 = unsolved") is visible
    for _ in range({"quick": 12, "search": 24, "thorough": 200}[tier]):
        d = rng.choice([1, 2, 3, 4, 5, 6])
        nonce = rng.choice([0, 0, 0, 1, M64, 1 << 32])
        kind = rng.randrange(3)
        for _try in range(4096):
            if kind == 0:
                i, r = rid(rng), rid(rng); pub = rng.randrange(1 << 32)
                if lzb(H(hs_pre(i, r, pub, nonce))) >= d:
                    cases.append({"ints": [3] + i + r + [pub] + u64(nonce) + [d], "tag": "hs-special-nonce"}); break
            elif kind == 1:
                a = rann(rng)
                if lzb(H(an_pre(a, nonce))) >= d:
                    cases.append({"ints": [4] + ann_ints(a) + u64(nonce) + [d], "tag": "ann-special-nonce"}); break
            else:
                c = rid(rng); size = rng.randrange(1 << 34); fn = bytes(rng.randrange(1, 256) for _ in range(rng.choice([0, 3, 20])))
                if lzb(H(st_pre(c, size, fn, nonce))) >= d:
                    cases.append({"ints": [5] + c + u64(size) + lp(fn) + u64(nonce) + [d], "tag": "store-special-nonce"}); break
    # --- solvers
    m = {"quick": 10, "search": 16, "thorough": 150}[tier]
    for _ in range(m):
        d = rng.choice([0, 1, 2, 3, 4, 5, 6, 7])
        # token
        c, h = rid(rng), rid(rng)
        ep = bytes(rng.randrange(32, 127) for _ in range(rng.choice([0, 1, 14, 30])))
        mx = rng.choice([0, 1, 2, 50, 3000])
        cases.append({"ints": [6] + c + h + lp(ep) + [d, mx], "tag": "solve-token"})
        # handshake (node + cli)
        i, r = rid(rng), rid(rng)
        pub = rng.randrange(1 << 32)
        seed = int.from_bytes(H(hs_pre(i, r, pub, 0))[:8], "big")
        start = MT64(seed)()
        cases.append({"ints": [7] + i + r + [pub, d] + u64(start), "tag": "solve-handshake"})
        # announce
        a = rann(rng)
        seed = int.from_bytes(H(an_pre(a, 0))[:8], "big")
        start = MT64(seed)()
        cases.append({"ints": [8] + ann_ints(a) + [d] + u64(start), "tag": "solve-announce"})
        # store
        c = rid(rng)
        size = rng.randrange(1 << 33)
        fn = bytes(rng.randrange(1, 256) for _ in range(rng.choice([0, 5, 40])))
        seed = int.from_bytes(H(st_pre(c, size, fn, 0))[:8], "little")
        g = MT64(seed)
        mx = rng.choice([0, 1, 3, 2000, 2000])
        k = 2000 if mx == 0 else mx
        cands = [g() for _ in range(k)]
        cases.append({"ints": [9] + c + u64(size) + lp(fn) + [d, mx, len(cands)] + sum((u64(x) for x in cands), []),
                      "tag": "solve-store"})
    return cases


# ---- judge ------------------------------------------------------------------------------------------
class R:
    def __init__(self, ints):
        self.v, self.p = ints, 0

    def n(self):
        x = self.v[self.p]; self.p += 1; return x

    def id(self):
        x = self.v[self.p:self.p + 32]; self.p += 32; return bytes(b & 255 for b in x)

    def b(self):
        k = self.n(); x = self.v[self.p:self.p + k]; self.p += k; return bytes(b & 255 for b in x)

    def u(self):
        hi = self.n(); lo = self.n(); return ((hi & 0xFFFFFFFF) << 32) | (lo & 0xFFFFFFFF)


def opt(v):
    return [1] + u64(v) if v is not None else [0]


def expected(ints):
    r = R(ints)
    mode = r.n()
    if mode == 1:
        dg = r.id(); d = r.n(); z = lzb(dg)
        return [z, z, z, 1 if (d == 0 or z >= d) else 0]
    if mode == 2:
        dg = r.b(); d = r.n(); z = lzb(dg)
        return [z, z, 1 if (d == 0 or z >= d) else 0]
    if mode == 3:
        i, rr, pub, nonce, d = r.id(), r.id(), r.n(), r.u(), r.n()
        dg = H(hs_pre(i, rr, pub, nonce)); ok = 1 if (d == 0 or lzb(dg) >= d) else 0
        seed = int.from_bytes(H(hs_pre(i, rr, pub, 0))[:8], "big")
        return [ok, ok] + u64(seed) + list(dg)
    if mode == 4:
        a = (r.id(), r.id(), r.b(), r.b(), r.b(), r.u()); nonce = r.u(); d = r.n()
        dg = H(an_pre(a, nonce))
        seed = int.from_bytes(H(an_pre(a, 0))[:8], "big")
        return [1 if (d == 0 or lzb(dg) >= d) else 0] + u64(seed) + list(dg)
    if mode == 5:
        c, size, fn, nonce, d = r.id(), r.u(), r.b(), r.u(), r.n()
        return [1 if (d == 0 or lzb(H(st_pre(c, size, fn, nonce))) >= min(d, 24)) else 0]
    if mode == 6:
        c, h, ep, d, mx = r.id(), r.id(), r.b(), r.n(), r.n()
        if d == 0:
            return opt(0)
        if not ep or mx == 0:
            return opt(None)
        for n in range(mx):
            if lzb(H(tk_pre(c, h, ep, n))) >= d:
                return opt(n)
        return opt(None)
    if mode == 7:
        i, rr, pub, d, start = r.id(), r.id(), r.n(), r.n(), r.u()
        if d == 0:
            return opt(0) + opt(0)
        for k in range(4096):
            n = (start + k) & M64
            if lzb(H(hs_pre(i, rr, pub, n))) >= d:
                return opt(n) + opt(n)
        return None
    if mode == 8:
        a = (r.id(), r.id(), r.b(), r.b(), r.b(), r.u()); d = r.n(); start = r.u()
        if d == 0:
            return opt(0)
        for k in range(4096):
            n = (start + k) & M64
            if lzb(H(an_pre(a, n))) >= d:
                return opt(n)
        return None
    if mode == 9:
        c, size, fn, d, mx, k = r.id(), r.u(), r.b(), r.n(), r.n(), r.n()
        cands = [r.u() for _ in range(k)]
        if d == 0:
            return opt(0)
        lim = 500000 if mx == 0 else mx
        for n in cands[:lim]:
            if lzb(H(st_pre(c, size, fn, n))) >= min(d, 24):
                return opt(n)
        return opt(None) if lim <= len(cands) else None
    return None


NAMES = {1: "counters32", 2: "counters-span", 3: "handshake", 4: "announce", 5: "store", 6: "token-solver",
         7: "handshake-solver", 8: "announce-solver", 9: "store-solver"}


def judge(case, impl, model):
    ints = case["ints"]
    mode = ints[0]
    if impl and impl[0] in (-2000, -1000):
        return {"fail": f"C19|abnormal|{NAMES.get(mode)}|{impl[:2]}"}
    want = expected(ints)
    d_pos = True
    if want is None:
        return {"nontrivial": False}
    if impl != want:
        what = "mismatch"
        if mode in (1, 2):
            k = 3 if mode == 1 else 2
            what = "counters-disagree" if len(set(impl[:k])) > 1 or impl[:k] != want[:k] else "meets-difficulty-wrong"
        elif mode in (3, 4, 5):
            what = "accepts-insufficient-work" if impl[:1] == [1] and want[:1] == [0] else \
                   "rejects-sufficient-work" if impl[:1] == [0] and want[:1] == [1] else \
                   ("node-cli-disagree" if mode == 3 and impl[0] != impl[1] else "digest-or-seed-differs")
            if mode == 3 and impl[0] == want[0] and impl[1] != want[1]:
                what = "cli-validator-wrong"
        else:
            what = "solver-returns-other-nonce"
        return {"fail": f"C19|{NAMES.get(mode)}|{what}"}
    return {"nontrivial": d_pos}


def outcome_class(case, impl):
    return NAMES.get(case["ints"][0], "?") + ":" + ("accept" if impl and impl[0] == 1 else "reject/none")
