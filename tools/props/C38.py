"""C38 -- update metadata parsing is total and decodes JSON strings correctly."""
import json

ID = "C38"
FAMILY = "json"
RULE = ("update::parse_update_metadata on a string_view over an exact-size non-NUL-terminated heap block under ASan+UBSan: "
        "well-formed metadata documents whose strings mix raw UTF-8 (1..4-byte characters), every simple escape, \\\\uXXXX "
        "for BMP characters in upper / lower case hex, surrogate pairs, with duplicate keys, extra members of every JSON "
        "type, numbers of every grammatical shape, whitespace everywhere; then broken: truncation at EVERY offset of a "
        "document, lone high / low surrogates, a high surrogate followed by a non-surrogate escape, bad hex, bad escapes, "
        "nesting of 1..70 and 1000 / 100000 / 400000 levels of [ and {\\\"a\\\": in value position, nesting beyond the limit with an empty container / a scalar before the nested child at each level and mixed brackets, \\\\u escapes starting at every offset around 256 / 512 / 1024 / 4096 in long values and keys, missing / mistyped fields, "
        "random bytes. Oracle (independent of the model): python's json module with first-key-wins pairs plus a nesting "
        "counter -- success iff the document is JSON nested at most 64 deep with the required string fields, and then every "
        "reported field equals the UTF-8 encoding of the python value; never a crash, hang or sanitizer report. "
        "non-trivial = a document with at least one escape or a truncation; distinct = distinct implementation outputs")
ASSUMPTIONS = ["numbers are kept as text: std::strtod's ERANGE verdict (|exponent| beyond double range) is not modelled and such "
               "numbers are not generated", "stack use = nesting depth (<= 64) x frame size; the frame size is not measured"]
TRUSTED = ["extraction: ExtrOcamlBasic only", "harness/impl_json.cpp", "python json module as oracle"]
TIMEOUT = 900
MAXD = 64


def lp(b):
    return [len(b)] + list(b)


CHARS = ["a", "Z", "0", " ", "é", "ß", "€", "あ", "😀", "𝄞", "\U0010FFFF", "߿", "ࠀ", "￿", "\u0080", "\x7f", "/", "\"", "\\",
         "\b", "\f", "\n", "\r", "\t"]


def render_char(rng, ch):
    cp = ord(ch)
    simple = {'"': '\\"', "\\": "\\\\", "/": "\\/", "\b": "\\b", "\f": "\\f", "\n": "\\n", "\r": "\\r", "\t": "\\t"}
    k = rng.randrange(4)
    if ch in simple and (k < 2 or ch in '"\\'):
        if ch == "/" and k == 0:
            return "/"
        return simple[ch]
    if k == 0 and cp >= 0x20:
        return ch
    if cp < 0x10000:
        h = "%04x" % cp
        return "\\u" + (h.upper() if rng.random() < 0.5 else h)
    v = cp - 0x10000
    hi, lo = 0xD800 + (v >> 10), 0xDC00 + (v & 0x3FF)
    return "\\u%04X\\u%04x" % (hi, lo) if rng.random() < 0.5 else "\\u%04x\\u%04X" % (hi, lo)


def rand_string(rng):
    n = rng.choice([0, 1, 2, 5, 12])
    s = "".join(rng.choice(CHARS) for _ in range(n))
    return s, '"' + "".join(render_char(rng, c) for c in s) + '"'


def ws(rng):
    return rng.choice(["", "", " ", "\n", "\t\r ", "  "])


def rand_other(rng, depth=0):
    k = rng.randrange(8 if depth < 3 else 5)
    if k == 0:
        return rng.choice(["0", "-0", "1", "-12", "3.25", "0.5", "1e5", "1E+5", "2.5e-3", "123456789012", "-0.0e0"])
    if k == 1:
        return rng.choice(["true", "false", "null"])
    if k in (2, 3, 4):
        return rand_string(rng)[1]
    if k in (5, 6):
        return "[" + ws(rng) + ",".join(ws(rng) + rand_other(rng, depth + 1) + ws(rng) for _ in range(rng.randrange(3))) + "]"
    return "{" + ",".join(ws(rng) + rand_string(rng)[1] + ws(rng) + ":" + ws(rng) + rand_other(rng, depth + 1) for _ in range(rng.randrange(3))) + ws(rng) + "}"


def rand_doc(rng):
    members = []
    req = ["version", "tag", "commit", "channel", "generated_at"]
    for k in req:
        members.append('"%s"%s:%s%s' % (k, ws(rng), ws(rng), rand_string(rng)[1]))
    if rng.random() < 0.6:
        members.append('"notes_url":' + (rand_string(rng)[1] if rng.random() < 0.8 else rand_other(rng)))
    dls = []
    for _ in range(rng.choice([1, 1, 2, 3])):
        fields = ['"url":' + rand_string(rng)[1]]
        for k in ("arch", "format", "sha256"):
            if rng.random() < 0.6:
                fields.append('"%s":%s' % (k, rand_string(rng)[1] if rng.random() < 0.85 else rand_other(rng)))
        if rng.random() < 0.2:
            fields.append('"url":"second"')
        rng.shuffle(fields)
        dls.append(rand_string(rng)[1] + ws(rng) + ":" + ws(rng) + "{" + ",".join(fields) + "}")
    if rng.random() < 0.3:
        dls.append(rand_string(rng)[1] + ":" + rng.choice(["1", "null", "[]", '"x"']))
    members.append('"downloads"%s:%s{%s}' % (ws(rng), ws(rng), ("," + ws(rng)).join(dls)))
    for _ in range(rng.choice([0, 0, 1, 2])):
        members.append(rand_string(rng)[1] + ":" + rand_other(rng))
    if rng.random() < 0.2:
        members.append('"version":"dup"')
    if rng.random() < 0.5:
        rng.shuffle(members)
    return ws(rng) + "{" + ws(rng) + ("," + ws(rng)).join(members) + ws(rng) + "}" + ws(rng)


def generate(rng, tier):
    n = {"quick": 120, "search": 250, "thorough": 2500}[tier]
    cases = []

    def add(text, tag):
        b = text if isinstance(text, bytes) else text.encode("utf-8")
        cases.append({"ints": [1] + lp(b), "tag": tag})

    base = '{"version":"1.2.3","tag":"v1.2.3","commit":"abc","channel":"stable","generated_at":"now","downloads":{"linux":{"url":"u"}}}'
    add(base, "valid")
    for cut in range(len(base) + 1):
        add(base[:cut], "truncate")
    for t in ["{", "{ ", "{\"a\":1,", "-", "[", "[1,", "\"", "\"\\", "\"\\u", "\"\\u12", "{\"a\"", "{\"a\":", "tru", "nul", "", " ", "1", "[]",
              "{\"a\":-}", "{\"a\":1.}", "{\"a\":1e}", "{\"a\":01}"]:
        add(t, "cut-token")
    wrap = '{"version":%s,"tag":"t","commit":"c","channel":"s","generated_at":"g","downloads":{"p":{"url":"u"}}}'
    for lit in ['"\\uD83D\\uDE00"', '"\\ud83d\\ude00"', '"\\uD83D"', '"\\uDE00"', '"\\uD83Dx"', '"\\uD83D\\n"', '"\\uD83D\\u0041"',
                '"\\uD83D\\uD83D"', '"\\uD83D\\uDE0"', '"\\uD83D\\u"', '"\\uDBFF\\uDFFF"', '"\\uD800\\uDC00"', '"\\u12G4"', '"\\x41"',
                '"\\u0000"', '"\\u007f\\u0080\\u07FF\\u0800\\uFFFF"', '"a\\u00e9b"', '"\\"\\\\\\/\\b\\f\\n\\r\\t"', '"\\U0041"', '"\\a"']:
        add(wrap % lit, "escape")
    for d in list(range(1, 8)) + [60, 61, 62, 63, 64, 65, 66, 70, 1000] + ([100000, 400000] if tier != "quick" else [100000]):
        for opener, closer in (("[", "]"), ('{"a":', "}")):
            deep = opener * d + "1" + closer * d
            add('{"x":%s,"version":"v","tag":"t","commit":"c","channel":"s","generated_at":"g","downloads":{"p":{"url":"u"}}}' % deep, "nesting")
            if d >= 1000:
                add(opener * d, "nesting-open")
    # nesting beyond the limit reached through other shapes: an empty container before the nested child at every level,
    # mixed brackets, a deep branch after a closed deep branch
    shapes = [("[[],", "]"), ('{"a":{},"b":', "}"), ("[{},", "]"), ('{"a":[],"b":', "}"), ('[{"k":', "}]"), ("[1,", "]"), ('{"a":1,"b":', "}")]
    for d in [63, 64, 65, 66, 101] + ([100000] if tier != "quick" else [20000]):
        for op, cl in shapes:
            per = 2 if op == '[{"k":' else 1
            dd = max(1, d // per)
            deep = op * dd + "1" + cl * dd
            if d >= 20000:
                add(op * dd, "nesting-open")
            else:
                add(wrap.replace('"version":%s', '"x":%s,"version":"v"') % deep, "nesting")
    twice = "[" * 64 + "]" * 64
    add(wrap.replace('"version":%s', '"x":[%s],"version":"v"') % (twice[1:-1] + "," + twice[1:-1]), "nesting")
    # long literals: a \\u escape (2-, 3- and 4-byte characters) starting at every offset around a power of two, as a value
    # and as an object key
    for base_len in ([255, 256, 511, 512, 1023, 1024, 4095, 4096] if tier != "quick" else [256, 1024]):
        for L in range(base_len - 4, base_len + 3):
            for esc, ch in (("\\u00e9", "é"), ("\\u20AC", "€"), ("\\ud83d\\ude00", "😀")):
                prefix = "".join(rng.choice("abcdefgh") for _ in range(L))
                lit = '"' + prefix + esc + 'z"'
                if rng.random() < 0.5:
                    add(wrap % lit, "long-escape")
                else:
                    add('{"version":"v","tag":"t","commit":"c","channel":"s","generated_at":"g","downloads":{%s:{"url":"u"}}}' % lit, "long-escape")
    for _ in range(n):
        doc = rand_doc(rng)
        add(doc, "valid")
        r = rng.random()
        if r < 0.3:
            add(doc[:rng.randrange(len(doc))], "truncate")
        elif r < 0.5:
            b = bytearray(doc.encode()); j = rng.randrange(len(b)); b[j] = rng.choice([0, 34, 92, 123, 125, 44, 58, 255, rng.randrange(256)])
            add(bytes(b), "bytemut")
        elif r < 0.6:
            k = rng.choice(["version", "tag", "commit", "channel", "generated_at", "downloads", "url"])
            add(doc.replace('"%s"' % k, '"%s_"' % k, 1), "missing-field")
        elif r < 0.65:
            add(bytes(rng.randrange(256) for _ in range(rng.choice([1, 5, 40]))), "random")
    return cases


def depth_ok(text):
    d, mx, i, n = 0, 0, 0, len(text)
    while i < n:
        c = text[i]
        if c == '"':
            i += 1
            while i < n and text[i] != '"':
                i += 2 if text[i] == "\\" else 1
        elif c in "[{":
            d += 1; mx = max(mx, d)
        elif c in "]}":
            d -= 1
        i += 1
    return mx <= MAXD, mx


def has_lone_surrogate(o):
    if isinstance(o, str):
        return any(0xD800 <= ord(c) <= 0xDFFF for c in o)
    if isinstance(o, list):
        return any(has_lone_surrogate(x) for x in o)
    if isinstance(o, Pairs):
        return any(has_lone_surrogate(k) or has_lone_surrogate(v) for k, v in o.items)
    return False


class Pairs:
    def __init__(self, items):
        self.items = items

    def get(self, key):
        for k, v in self.items:
            if k == key:
                return v
        return None


def expected(raw):
    try:
        text = raw.decode("utf-8")
    except UnicodeDecodeError:
        return "unknown"
    ok, mx = depth_ok(text)
    if mx > 900:
        return None if not ok else "unknown"
    try:
        root = json.loads(text, object_pairs_hook=Pairs, strict=False, parse_constant=lambda c: (_ for _ in ()).throw(ValueError(c)))
    except (ValueError, RecursionError):
        return None
    if not ok or has_lone_surrogate(root):
        return None
    if not isinstance(root, Pairs):
        return None
    out = [1]
    for k in ["version", "tag", "commit", "channel", "generated_at"]:
        v = root.get(k)
        if not isinstance(v, str):
            return None
        out += lp(v.encode("utf-8"))
    nv = root.get("notes_url")
    out += ([1] + lp(nv.encode("utf-8"))) if isinstance(nv, str) else [0]
    dl = root.get("downloads")
    if not isinstance(dl, Pairs):
        return None
    ds = []
    for plat, v in dl.items:
        if not isinstance(v, Pairs):
            continue
        url = v.get("url")
        if not isinstance(url, str):
            return None
        e = lp(plat.encode("utf-8")) + lp(url.encode("utf-8"))
        sha = v.get("sha256")
        e += ([1] + lp(sha.encode("utf-8"))) if isinstance(sha, str) else [0]
        for k in ("arch", "format"):
            x = v.get(k)
            e += lp(x.encode("utf-8")) if isinstance(x, str) else [0]
        ds.append(e)
    if not ds:
        return None
    return out + [len(ds)] + sum(ds, [])


def judge(case, impl, model):
    ints = case["ints"]
    raw = bytes(ints[2:2 + ints[1]])
    if impl and impl[0] == -2000:
        kind = {1: "memory-error-or-ub", 2: "hang", 3: "crash"}.get(impl[1], "abnormal-exit")
        return {"fail": f"C38|{kind}|{case.get('tag')}"}
    if impl and impl[0] == -1000:
        return {"fail": f"C38|exception-escaped|{impl[1]}"}
    want = expected(raw)
    nontrivial = b"\\" in raw or case.get("tag") in ("truncate", "cut-token", "nesting")
    if want == "unknown":
        return {"nontrivial": nontrivial}
    if want is None:
        if impl != [0]:
            return {"fail": "C38|accepted-invalid-document|" + (case.get("tag") or "")}
        return {"nontrivial": nontrivial}
    if impl == [0]:
        return {"fail": "C38|rejected-valid-document|" + (case.get("tag") or "")}
    if impl != want:
        return {"fail": "C38|field-differs-from-json-value|" + (case.get("tag") or "")}
    return {"nontrivial": nontrivial}


def outcome_class(case, impl):
    return (case.get("tag") or "?") + (":ok" if impl and impl[0] == 1 else ":error")
