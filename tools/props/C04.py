"""C04 -- persisted chunk files do not outlive the chunk."""
ID = "C04"
FAMILY = "persist"
RULE = ("the real ChunkStore with persistence on a scratch directory (wipe-on-expiry on, in a fifth of the runs off), virtual "
        "clock: 4..30 operations over 6 chunk keys -- put (payload 0..200 bytes, TTL 0 = default, 1, 2, 5 s), overwrite, "
        "get_record (also between deadline and sweep), sweep, clock advances around the deadlines, and restarts: the store is "
        "destroyed, 0..3 chunk files with arbitrary content are dropped into the directory under any key (everything an "
        "interrupted store or wipe can leave behind: empty, zeroed, partial, full, stale content), and a new ChunkStore is "
        "constructed on the directory. After every operation the directory is listed with file contents; a foreign file and a "
        "sub-directory named *.chunk stand by. Stores repeat the bytes already held under the key (once, twice, three times in a row) in 40% of the overwrites.  'crash' cases run a put (new key, overwrite) or a sweep in a forked child that is "
        "killed at its N-th file-system call, for every N, each time followed by a new instance and a listing of EVERYTHING in the directory. Oracle (independent of the model, a python reference of which chunks are "
        "held): with wipe-on-expiry, a chunk file exists only for a key whose latest put is still held and holds exactly those "
        "bytes; after a sweep no file belongs to an expired chunk (also when a lookup noticed the expiry first); after a "
        "restart no chunk file is left; bystanders untouched. non-trivial = a sequence with an expiry or a restart; distinct "
        "= distinct outputs")
ASSUMPTIONS = ["a crash is explored two ways: by its possible outcomes on disk (any content under any chunk key when the next instance "
               "starts), and by really running a store / sweep in a child process that dies at its N-th file-system call for every N "
               "(fopen / open / write, also after half of the bytes / unlink / remove / rename / ftruncate, interposed in the harness binary)",
               "file-system calls succeed (no I/O errors); overwrite passes are not observed, only presence and content"]
TRUSTED = ["extraction: ExtrOcamlBasic only", "harness/impl_persist.cpp, link-time replacement of the clocks"]
TIMEOUT = 900
NS = 10 ** 9


def lp(b):
    return [len(b)] + list(b)


def generate(rng, tier):
    n = {"quick": 200, "search": 400, "thorough": 3000}[tier]
    cases = []
    # the historical failures: expiry first noticed by a lookup; a file from an earlier instance
    cases.append({"ints": [1, 60, 0, 3, 2] + lp(b"abc") + [3, 2000, 1, 3, 2, 3, 1000, 2], "tag": "lookup-first"})
    cases.append({"ints": [1, 60, 0, 3, 5] + lp(b"abc") + [4, 1, 9] + lp(b"stale") + [2, 3, 6000, 2], "tag": "restart-leftover"})
    # crash enumeration: a store (new key, overwrite) or a sweep is run in a child process that dies at its N-th file-system
    # call (open / write -- also half a write -- / unlink / rename), for every N; a new instance then starts on the directory
    for _ in range(n // 10):
        ints = [1, 60]
        for _ in range(rng.randrange(0, 3)):
            ints += [0, rng.randrange(4), rng.choice([2, 5])] + lp(bytes(rng.randrange(256) for _ in range(rng.choice([1, 50, 5000]))))
        which = rng.choice(["put-new", "put-over", "sweep"])
        if which == "put-new":
            ints += [5, 0, 5, 5] + lp(bytes(rng.randrange(256) for _ in range(rng.choice([1, 300, 9000]))))
        elif which == "put-over":
            ints += [0, 2, 5] + lp(b"old-bytes-old-bytes") + [5, 0, 2, 5] + lp(bytes(rng.randrange(256) for _ in range(rng.choice([1, 300, 9000]))))
        else:
            ints += [0, 3, 1] + lp(bytes(rng.randrange(256) for _ in range(6000))) + [3, 2000, 5, 2]
        cases.append({"ints": ints, "tag": "crash-" + which})
    # identical bytes stored again under a key whose file is already on disk (1, 2, 3 times), then the chunk expires and is swept
    for reps in (1, 2, 3):
        for size in (1, 3000):
            data = bytes(rng.randrange(256) for _ in range(size))
            ints = [1, 60]
            for _ in range(reps + 1):
                ints += [0, 2, 2] + lp(data)
            ints += [0, 3, 2] + lp(b"other") + [0, 3, 2] + lp(b"bytes") + [3, 2500, 2, 1, 2, 3, 100, 2]
            cases.append({"ints": ints, "tag": "identical-restore"})
    for _ in range(n):
        wipe = 0 if rng.random() < 0.2 else 1
        dflt = rng.choice([1, 3, 60])
        ints = [wipe, dflt]
        last = {}
        for _ in range(rng.choice([4, 10, 18, 30])):
            r = rng.random()
            k = rng.randrange(6)
            if r < 0.35:
                data = bytes(rng.randrange(256) for _ in range(rng.choice([0, 1, 5, 200])))
                again = k in last and rng.random() < 0.4
                if again:
                    data = last[k]          # the same bytes stored again under the same key (once, twice, three times in a row)
                last[k] = data
                for _ in range(rng.choice([1, 1, 2, 3]) if again else 1):
                    ints += [0, k, rng.choice([0, 1, 2, 5])] + lp(data)
            elif r < 0.5:
                ints += [1, k]
            elif r < 0.65:
                ints += [2]
            elif r < 0.9:
                ints += [3, rng.choice([1, 500, 999, 1000, 1001, 2000, 5000])]
            else:
                ints += [4]
                entries = []
                for _ in range(rng.randrange(0, 4)):
                    entries.append((rng.randrange(8), bytes(rng.choice([0, 0x41, rng.randrange(256)]) for _ in range(rng.choice([0, 3, 64])))))
                ints += [len(entries)]
                for kk, b in entries:
                    ints += [kk] + lp(b)
        cases.append({"ints": ints, "tag": "sequence"})
    return cases


def judge(case, impl, model):
    ints = case["ints"]
    if impl and impl[0] in (-2000, -1000):
        return {"fail": f"C04|abnormal|{impl[:2]}"}
    wipe, dflt = ints[0], ints[1]
    p = 2
    q = 0
    now = 0
    held = {}          # key -> (bytes, deadline): what the store holds (python reference: removed by sweep only)
    others = {}        # files present without wipe-on-expiry may legitimately linger: not judged
    nontrivial = False

    def rdir():
        nonlocal q
        cnt = impl[q]; q += 1
        if cnt >= 1000:
            return None
        d = {}
        for _ in range(cnt):
            k = impl[q]; ln = impl[q + 1]; d[k] = bytes(impl[q + 2:q + 2 + ln]); q += 2 + ln
        return d
    try:
        while p < len(ints):
            code = ints[p]; p += 1
            after_sweep = after_restart = False
            if code == 0:
                k, ttl = ints[p], ints[p + 1]; ln = ints[p + 2]; data = bytes(ints[p + 3:p + 3 + ln]); p += 3 + ln
                eff = ttl if ttl > 0 else dflt
                held[k] = (data, now + max(eff, 1) * NS)
            elif code == 1:
                k = ints[p]; p += 1
                got = impl[q]; q += 1
                if got == 1:
                    ln = impl[q]; b = bytes(impl[q + 1:q + 1 + ln]); q += 1 + ln
                    if k not in held or now >= held[k][1] or held[k][0] != b:
                        return {"fail": "C04|lookup-returned-expired-or-wrong-bytes"}
            elif code == 2:
                for k in [k for k, (_, dl) in held.items() if now >= dl]:
                    del held[k]
                    nontrivial = True
                after_sweep = True
            elif code == 3:
                now += max(0, ints[p]) * 10 ** 6; p += 1
            elif code == 5:
                worst, explored = impl[q], impl[q + 1]; q += 2
                if worst != 0:
                    return {"fail": "C04|file-left-behind-by-a-crash-survived-the-restart"}
                if not explored:
                    return {"fail": "C04|crash-enumeration-found-no-crash-point"}
                nontrivial = True
                tc = ints[p]; p += 1
                if tc == 0:
                    k, ttl = ints[p], ints[p + 1]; ln = ints[p + 2]; data = bytes(ints[p + 3:p + 3 + ln]); p += 3 + ln
                    eff = ttl if ttl > 0 else dflt
                    held[k] = (data, now + max(eff, 1) * NS)
                else:
                    for k in [k for k, (_, dl) in held.items() if now >= dl]:
                        del held[k]
                    after_sweep = True
            else:
                cnt = ints[p]; p += 1
                for _ in range(cnt):
                    ln = ints[p + 1]; p += 2 + ln
                held = {}
                after_restart = True
                nontrivial = True
            d = rdir()
            if d is None:
                return {"fail": "C04|unexpected-entry-in-the-storage-directory"}
            if wipe:
                for k, b in d.items():
                    if k not in held:
                        what = "after-restart" if after_restart else ("after-sweep" if after_sweep else "")
                        return {"fail": f"C04|file-of-a-chunk-that-is-not-held{('-' + what) if what else ''}"}
                    if held[k][0] != b:
                        return {"fail": "C04|file-content-is-not-the-stored-bytes"}
                    if after_sweep and now >= held[k][1]:
                        return {"fail": "C04|file-of-an-expired-chunk-survived-the-sweep"}
                for k in held:
                    if k not in d:
                        return {"fail": "C04|held-chunk-has-no-file"}
                if after_restart and d:
                    return {"fail": "C04|chunk-file-survived-a-restart"}
        if impl[q] != 1:
            return {"fail": "C04|bystander-file-touched"}
    except IndexError:
        return {"fail": "C04|output-shape"}
    return {"nontrivial": nontrivial}
