"""C37 -- structured log records are single, faithful JSON lines."""
import json

ID = "C37"
FAMILY = "logger"
RULE = ("mode 1: escape_json on byte strings (every single byte 0..255, all pairs of special bytes, random strings rich "
        "in quotes/backslashes/control bytes/UTF-8 2-4 byte sequences, lengths 0..2000); mode 2: the real "
        "StructuredLogger::log with std::clog captured (levels 0..2, 0..12 fields, empty keys/values, duplicate keys), "
        "timestamp content removed and its ISO shape checked by the harness. Oracle (independent of the model): the "
        "captured line, decoded as UTF-8 with surrogateescape, is parsed by python's json module and must give back event "
        "and fields exactly, with exactly one '\\n' at the end. non-trivial = input contains a byte that needs escaping; "
        "distinct = distinct implementation outputs")
ASSUMPTIONS = ["the timestamp is produced by put_time on the wall clock and contains only digits and -T:.Z (checked "
               "on every explored record, not proved)",
               "the specification reader decodes \\uXXXX only for code points below 0x80 (the escaper produces no others)"]
TRUSTED = ["extraction: ExtrOcamlBasic only", "harness/impl_logger.cpp (clog capture, #define private public)",
           "python json module as independent reader in the oracle"]
TIMEOUT = 600

SPECIAL = [0x22, 0x5c, 0x08, 0x0c, 0x0a, 0x0d, 0x09, 0x00, 0x01, 0x1f, 0x20, 0x7f, 0x2f, 0x75]
UTF8 = ["é", "€", "😀", " ", "\u0080", "�", "ß"]


def lp(b):
    return [len(b)] + list(b)


def rand_str(rng, maxlen=24):
    n = rng.choice([0, 1, 2, 3, 5, 8, maxlen])
    out = bytearray()
    while len(out) < n:
        r = rng.random()
        if r < 0.35:
            out.append(rng.choice(SPECIAL))
        elif r < 0.5:
            out += rng.choice(UTF8).encode()
        elif r < 0.6:
            out.append(rng.randrange(0, 32))
        else:
            out.append(rng.randrange(32, 127))
    return bytes(out)


def generate(rng, tier):
    n = {"quick": 300, "search": 600, "thorough": 5000}[tier]
    cases = []
    for b in range(256):
        cases.append({"ints": [1] + lp(bytes([b])), "tag": "byte"})
    for a in SPECIAL:
        for b in SPECIAL:
            cases.append({"ints": [1] + lp(bytes([a, b, a])), "tag": "pair"})
    cases.append({"ints": [1] + lp(bytes(rng.randrange(256) for _ in range(2000))), "tag": "long"})
    # long event names / field names / values inside whole records: any size-dependent treatment (caps, chunking,
    # buffers) must not change what decodes back; sizes straddle powers of two, with an escape or a multi-byte
    # character sitting exactly on the boundary
    for L in [255, 256, 257, 511, 512, 513, 1023, 1024, 1025, 2047, 2048, 2049, 4095, 4096, 4097, 8192, 65536]:
        for tail in [b"a", b'"', b"\\", b"\n", "€".encode(), "😀".encode()]:
            if tier == "quick" and L > 4097 and tail != b'"':
                continue
            body = bytes(rng.choice(b"abcdefghij") for _ in range(L - 1)) + tail
            slot = rng.randrange(3)
            ev, k, v = b"event", b"key", b"value"
            if slot == 0:
                v = body
            elif slot == 1:
                k = body
            else:
                ev = body
            cases.append({"ints": [2, rng.randrange(3)] + lp(ev) + [2] + lp(b"a") + lp(b"b") + lp(k) + lp(v), "tag": "long-record"})
        q = bytes([0x22]) * (L // 2 + 1)          # escaped length is twice the raw length
        cases.append({"ints": [2, 1] + lp(b"e") + [1] + lp(b"k") + lp(q), "tag": "long-record"})
    for i in range(n):
        if i % 3 == 0:
            cases.append({"ints": [1] + lp(rand_str(rng, 200)), "tag": "escape"})
        else:
            nf = rng.choice([0, 0, 1, 2, 3, 12])
            fs = []
            for _ in range(nf):
                fs += lp(rand_str(rng)) + lp(rand_str(rng))
            if nf >= 2 and rng.random() < 0.3:   # duplicate key
                k = rand_str(rng)
                fs = lp(k) + lp(rand_str(rng)) + lp(k) + lp(rand_str(rng))
                nf = 2
            cases.append({"ints": [2, rng.randrange(3)] + lp(rand_str(rng)) + [nf] + fs, "tag": "record"})
    return cases


def _utf8_valid(b):
    try:
        b.decode("utf-8")
        return True
    except UnicodeDecodeError:
        return False


def judge(case, impl, model):
    ints = case["ints"]
    if impl and impl[0] == -2000:
        return {"fail": f"C37|crash|kind={impl[1]}"}
    if impl and impl[0] == -1000:
        return {"fail": f"C37|exception|class={impl[1]}"}
    if ints[0] == 1:
        s = bytes(ints[2:2 + ints[1]])
        esc = bytes(impl[1:1 + impl[0]])
        nontrivial = any(c < 32 or c in (0x22, 0x5c) for c in s)
        if any(c < 32 for c in esc):
            return {"fail": "C37|raw-control-byte", "nontrivial": nontrivial}
        try:
            back = json.loads((b"\"" + esc + b"\"").decode("utf-8", "surrogateescape"))
        except Exception:  # noqa: BLE001
            return {"fail": "C37|escape-not-json", "nontrivial": nontrivial}
        if back.encode("utf-8", "surrogateescape") != s:
            return {"fail": "C37|escape-not-faithful", "nontrivial": nontrivial}
        return {"nontrivial": nontrivial}
    # record
    p = [2]

    def take_lp():
        n = ints[p[0]]
        b = bytes(ints[p[0] + 1:p[0] + 1 + n])
        p[0] += 1 + n
        return b
    ev = take_lp()
    nf = ints[p[0]]; p[0] += 1
    fields = [(take_lp(), take_lp()) for _ in range(nf)]
    if impl[0] != 1:
        return {"fail": "C37|timestamp-shape"}
    line = bytes(impl[2:2 + impl[1]])
    if not line.endswith(b"\n") or line.count(b"\n") != 1 or any(c < 32 for c in line[:-1]):
        return {"fail": "C37|not-one-line"}
    try:
        obj = json.loads(line.decode("utf-8", "surrogateescape"), object_pairs_hook=list)
    except Exception:  # noqa: BLE001
        return {"fail": "C37|record-not-json"}
    d = dict(obj)
    enc = lambda t: t.encode("utf-8", "surrogateescape")  # noqa: E731
    got_fields = [(enc(k), enc(v)) for k, v in d.get("fields", [])] if "fields" in d else []
    if enc(d.get("event", "")) != ev or got_fields != fields or [k for k, _ in obj][:3] != ["ts", "level", "event"]:
        return {"fail": "C37|record-not-faithful"}
    nontrivial = any(c < 32 or c in (0x22, 0x5c) for c in ev + b"".join(k + v for k, v in fields))
    return {"nontrivial": nontrivial}


def outcome_class(case, impl):
    return "escape" if case["ints"][0] == 1 else "record"
