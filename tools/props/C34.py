"""C34 -- auto-advertise never publishes non-routable addresses unless allowed."""
import importlib.util
import ipaddress
import pathlib

ID = "C34"
FAMILY = "advertise"
_spec = importlib.util.spec_from_file_location("c12_for_c34", pathlib.Path(__file__).with_name("C12.py"))
_c12 = importlib.util.module_from_spec(_spec)
_spec.loader.exec_module(_c12)

RULE = ("mode 1: the real is_private_or_reserved_host on IPv4 text for every first octet, both sides of every boundary of every "
        "reserved range (0/8, 10/8, 100.64/10, 127/8, 169.254/16, 172.16/12, 192.0.2/24, 192.168/16, 198.18/15, 198.51.100/24, "
        "203.0.113/24, 224/3) and random addresses; on IPv6 in canonical (inet_ntop / RFC 5952) text inside and just outside "
        "::, ::1, fc00::/7, fe80::/10, 2001:db8::/32, ff00::/8, random global addresses, and IPv4-mapped ::ffff:a.b.c.d for "
        "every IPv4 case; bracketed / zone-id / upper-case variants; host names. mode 2: a real Node, NAT discovery answered "
        "through the project's NatTraversalManager test hook (STUN failed, or a public / private / CGNAT / benchmark / "
        "documentation IPv4, a public / link-local / unique-local / mapped IPv6), auto-advertise on / warn / off, private "
        "allowed or not, control host empty / loopback / private / public, with and without manual endpoints: after "
        "start_transport the advertised endpoints, the candidates, the conflict flag and the discovery hints of a manifest from "
        "store_chunk are read back; mode 3 additionally starts from a configuration that already carries auto-discovered (non-manual) "
        "entries and starts the transport a second time after the operator changed mode / allow_private. Oracle (independent of the model, python ipaddress networks): a non-routable address is "
        "classified as such; with private not allowed no non-manual advertised endpoint and no transport hint carries a "
        "non-routable host; in off mode there is none at all, nor in warn mode with conflicting candidates. non-trivial = a "
        "non-routable input; distinct = distinct outputs")
ASSUMPTIONS = ["IPv6 text is taken in the canonical form inet_ntop produces (the STUN path formats addresses with inet_ntop: C33); "
               "the formatter itself is not modelled -- the generator takes canonical text from python's ipaddress (RFC 5952) and "
               "writes the mapped form with a dotted quad as glibc does",
               "the https-echo fallback octet is an input of the model (mt19937 + uniform_int_distribution predicted in python)",
               "manual endpoints (operator-supplied) are outside the property"]
TRUSTED = ["extraction: ExtrOcamlBasic only", "harness/impl_advertise.cpp (#include of AdvertiseDiscovery.cpp, the project's own "
           "NatTraversalManager::set_test_hooks)", "python ipaddress as oracle"]
TIMEOUT = 900

V4_NETS = [ipaddress.ip_network(n) for n in ("0.0.0.0/8", "10.0.0.0/8", "100.64.0.0/10", "127.0.0.0/8", "169.254.0.0/16", "172.16.0.0/12",
                                             "192.0.2.0/24", "192.168.0.0/16", "198.18.0.0/15", "198.51.100.0/24", "203.0.113.0/24",
                                             "224.0.0.0/3")]
V6_NETS = [ipaddress.ip_network(n) for n in ("::/128", "::1/128", "fc00::/7", "fe80::/10", "2001:db8::/32", "ff00::/8")]
MAPPED = ipaddress.ip_network("::ffff:0:0/96")


def non_routable4(a):
    return any(a in n for n in V4_NETS)


def non_routable_text(h):
    """None: not an address literal"""
    t = h
    if t.startswith("[") and t.endswith("]"):
        t = t[1:-1]
    t = t.split("%")[0]
    try:
        a = ipaddress.ip_address(t)
    except ValueError:
        return None
    if a.version == 4:
        return non_routable4(a)
    if a in MAPPED:
        return non_routable4(ipaddress.IPv4Address(int(a) & 0xFFFFFFFF))
    return any(a in n for n in V6_NETS)


def canon6(a):
    a = ipaddress.IPv6Address(a)
    if a in MAPPED:
        return "::ffff:" + str(ipaddress.IPv4Address(int(a) & 0xFFFFFFFF))
    return str(a)


def lp(b):
    b = b.encode() if isinstance(b, str) else b
    return [len(b)] + list(b)


def echo_octet(seed):
    g = _c12.MT32((seed ^ 0xA5A5A5A5) & 0xFFFFFFFF)
    rng_range = 201
    prod = g() * rng_range
    low = prod & 0xFFFFFFFF
    if low < rng_range:
        threshold = ((1 << 32) - rng_range) % rng_range
        while low < threshold:
            prod = g() * rng_range
            low = prod & 0xFFFFFFFF
    return (prod >> 32) + 20


def v4_samples(rng):
    out = set()
    for a in range(256):
        out.add(f"{a}.{rng.randrange(256)}.{rng.randrange(256)}.{rng.randrange(1, 255)}")
    for n in V4_NETS:
        first, last = int(n.network_address), int(n.broadcast_address)
        for v in (first - 1, first, first + 1, last - 1, last, last + 1, rng.randrange(first, last + 1)):
            if 0 <= v < 2 ** 32:
                out.add(str(ipaddress.IPv4Address(v)))
    for _ in range(40):
        out.add(str(ipaddress.IPv4Address(rng.randrange(2 ** 32))))
    return sorted(out)


def generate(rng, tier):
    cases = []
    v4 = v4_samples(rng)
    for h in v4:
        cases.append({"ints": [1] + lp(h), "tag": "v4"})
        cases.append({"ints": [1] + lp("::ffff:" + h), "tag": "v6-mapped"})
    v6 = set()
    for n in V6_NETS:
        first, last = int(n.network_address), int(n.broadcast_address)
        for v in (first - 1, first, first + 1, last - 1, last, last + 1):
            if 0 <= v < 2 ** 128:
                v6.add(canon6(v))
        for _ in range(12):
            v6.add(canon6(rng.randrange(first, last + 1)))
    for _ in range({"quick": 150, "search": 300, "thorough": 3000}[tier]):
        v = rng.randrange(2 ** 128)
        if rng.random() < 0.5:
            v = (rng.choice([0x2000, 0x2a00, 0x2001, 0x2606, 0xfbff, 0xfe00, 0xfe7f, 0xfec0, 0xfeff, 0x00fc, 0x0fe8]) << 112) | (v & ((1 << 112) - 1))
        if rng.random() < 0.3:
            v &= ~(((1 << rng.randrange(16, 97)) - 1) << rng.randrange(0, 32))      # runs of zero groups
        v6.add(canon6(v))
    for h in sorted(v6):
        cases.append({"ints": [1] + lp(h), "tag": "v6"})
        if rng.random() < 0.15:
            cases.append({"ints": [1] + lp("[" + h.upper() + "]"), "tag": "v6-variant"})
            cases.append({"ints": [1] + lp(h + "%eth0"), "tag": "v6-variant"})
    for h in ["localhost", "LOCALHOST", "example.org", "0.0.0.0", "", "1.2.3", "1.2.3.4.5", "256.1.1.1", "01.2.3.4", "10.0.0.1.", "a.b.c.d",
              "10.0.0.01", "1.2.3.4:80", "::ffff:1.2.3", "::ffff:999.1.1.1", "fe80::1%lo", "[::1]", "[fe80::1", "::FFFF:10.0.0.1"]:
        cases.append({"ints": [1] + lp(h), "tag": "other"})
    # ---- mode 2
    stuns = [None, "45.64.61.85", "8.8.8.8", "10.1.2.3", "192.168.1.7", "100.64.0.9", "198.19.4.4", "198.18.0.1", "203.0.113.9", "169.254.1.1",
             "127.0.0.1", "224.0.0.5", "2a00:1450:4001::8a", "fe80::1", "fd12:3456::1", "2001:db8::5", "::1", "::ffff:10.0.0.1", "::ffff:8.8.8.8",
             "::ffff:198.19.0.1", "ff02::1"]
    hosts = ["", "127.0.0.1", "10.0.0.5", "45.1.2.3", "0.0.0.0", "::1"]
    manuals = [[], [], [("relay.example", 61000)], [("198.51.100.5", 0)], [("203.0.113.10", 999), ("pub.example", 998)]]
    combos = []
    for mo in (0, 1, 2):
        for ap in (0, 1):
            for s in stuns:
                combos.append((mo, ap, s))
    rng.shuffle(combos)
    limit = {"quick": 126, "search": 126, "thorough": 126}[tier]
    reps = {"quick": 1, "search": 2, "thorough": 6}[tier]
    for _ in range(reps):
        for mo, ap, s in combos[:limit]:
            ch = rng.choice(hosts)
            ms = rng.choice(manuals)
            adv = rng.choice([None, None, ("pin.example", 0), ("192.0.2.77", 997)])
            ints = [2, mo, ap] + lp(ch) + [41000, len(ms)]
            for h, p in ms:
                ints += lp(h) + [p]
            ints += [1 if adv else 0] + lp(adv[0] if adv else "") + [adv[1] if adv else 0]
            ints += [echo_octet(34), 1 if s else 0] + lp(s or "")
            cases.append({"ints": ints, "tag": "node"})
    # ---- mode 3: stale auto-discovered entries in the configuration from the start, and a second start of the transport
    # after the operator changed mode / allow_private (what a refresh that returns early must still strip)
    for _ in range({"quick": 60, "search": 100, "thorough": 400}[tier]):
        mo, ap = rng.choice([(0, 0), (0, 1), (1, 1), (2, 0), (2, 1)])
        s1 = rng.choice(stuns)
        mo2, ap2 = rng.choice([(2, 0), (2, 0), (2, 1), (1, 0), (0, 0), (1, 1)])
        s2 = rng.choice(stuns)
        ch = rng.choice(hosts)
        ms = rng.choice(manuals)
        stale = rng.choice([[], [], [("10.9.9.9", 996)], [("192.168.7.7", 0), ("8.8.4.4", 995)], [("fe80::9", 994)]])
        ints = [3, mo, ap] + lp(ch) + [41000, len(ms)]
        for h, p in ms:
            ints += lp(h) + [p]
        ints += [0] + lp("") + [0]
        ints += [echo_octet(34), 1 if s1 else 0] + lp(s1 or "")
        ints += [len(stale)]
        for h, p in stale:
            ints += lp(h) + [p]
        ints += [mo2, ap2, 1 if s2 else 0] + lp(s2 or "")
        cases.append({"ints": ints, "tag": "node-restart"})
    return cases


def judge(case, impl, model):
    ints = case["ints"]
    if impl and impl[0] in (-2000, -1000):
        return {"fail": f"C34|abnormal|{impl[:2]}"}
    if ints[0] == 1:
        h = bytes(ints[2:2 + ints[1]]).decode("latin1")
        nr = non_routable_text(h)
        if nr and impl != [1]:
            a = ipaddress.ip_address(h.strip("[]").split("%")[0])
            kind = "ipv4" if a.version == 4 else ("mapped" if a in MAPPED else "ipv6")
            return {"fail": f"C34|non-routable-{kind}-classified-routable", "nontrivial": True}
        return {"nontrivial": bool(nr)}
    phases = [(ints[1], ints[2])]
    if ints[0] == 3:
        # the second phase's mode / allow_private: the four ints before the final length-prefixed STUN address
        k = len(ints) - 1
        while k >= 0 and not (ints[k] == len(ints) - 1 - k):
            k -= 1
        phases.append((ints[k - 3], ints[k - 2]))
    p = 0

    def rd_list(n, width):
        nonlocal p
        out = []
        for _ in range(n):
            ln = impl[p]; host = bytes(impl[p + 1:p + 1 + ln]).decode("latin1"); p += 1 + ln
            out.append((host,) + tuple(impl[p:p + width])); p += width
        return out
    nontrivial = False
    for mo, ap in phases:
        try:
            n = impl[p]; p += 1
            advertised = rd_list(n, 2)
            n = impl[p]; p += 1
            cands = rd_list(n, 2)
            conflict = impl[p]; p += 1
            n = impl[p]; p += 1
            hints = rd_list(n, 2)
        except Exception:
            return {"fail": "C34|output-shape"}
        autos = [("advertised endpoint", h) for h, _port, manual in advertised if not manual]
        autos += [("manifest hint", h) for h, _port, control in hints if control == 0]
        for what, h in autos:
            nr = non_routable_text(h)
            if nr is None:
                nr = h.lower() in ("localhost",)
            if nr:
                nontrivial = True
                if not ap:
                    return {"fail": f"C34|non-routable-host-in-auto-{what.replace(' ', '-')}", "nontrivial": True}
        if mo == 2 and autos:
            return {"fail": "C34|auto-endpoint-published-with-auto-advertise-off", "nontrivial": True}
        if mo == 1 and conflict and autos:
            return {"fail": "C34|conflicting-candidates-published-in-warn-mode", "nontrivial": True}
        nontrivial = nontrivial or mo != 0
    return {"nontrivial": nontrivial}
