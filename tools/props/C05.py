"""C05 -- a cleanup tick removes all expired state and reports each expiry once."""
ID = "C05"
FAMILY = "cleanup"
NC = 6
RULE = ("a real Node under the virtual clock (whole seconds), cleanup interval 1, 5 or 30 s, six chunk ids: 6..40 operations "
        "-- store_chunk (ids 1..3, TTL 2..40 s, overwrites included), ingest_manifest of manifests published elsewhere (ids "
        "4..6 and, a quarter of the time, ids 1..3 which the node may hold itself; remaining lifetime 0, 1, 3..50 s), provider contacts learnt for any id (three peers, TTL 1..30 s), fetch_chunk of "
        "any id -- in particular between a chunk's deadline and the next tick -- ticks and clock advances of 1..40 s. After "
        "every operation the cleanup notifications are drained and per chunk id the harness reads: held (raw snapshot), "
        "manifest cached, swarm plan, key-share record, locator, holders; plus the TTL audit's counts. Oracle (independent of "
        "the model: a python reference that never forgets, with every deadline): after a tick that ran the cleanup branch "
        "nothing whose deadline has passed is still held in any of the six structures and the audit counts no expired entry; "
        "every local chunk that expired is reported exactly once (not before its deadline, not twice, not never once a cleanup "
        "has run past it). non-trivial = a sequence with an expiry; distinct = distinct outputs")
ASSUMPTIONS = ["the clock moves in whole seconds in this family (sub-second deadlines are C01's)",
               "a chunk that is both stored locally and ingested from another publisher carries two lifetimes: each structure is judged by its own deadline",
               "pending fetches are C24's, persisted files C04's"]
TRUSTED = ["extraction: ExtrOcamlBasic only", "harness/impl_cleanup.cpp (own NodeTestAccess friend, #define private public around "
           "KademliaTable.hpp), link-time replacement of the clocks"]
TIMEOUT = 900


def generate(rng, tier):
    n = {"quick": 200, "search": 350, "thorough": 2500}[tier]
    cases = []
    # the historical failures: expiry first noticed by a lookup; manifests and plans never pruned
    cases.append({"ints": [1, NC, 0, 1, 3, 0, 5, 3, 0, 0, 3, 1, 0, 0, 5, 2, 0, 0, 4, 0, 0, 0], "tag": "lookup-first"})
    cases.append({"ints": [1, NC, 1, 4, 5, 0, 0, 2, 4, 0, 5, 6, 0, 0, 4, 0, 0, 0, 5, 3, 0, 0, 4, 0, 0, 0], "tag": "manifest-plan"})
    # a locally held chunk whose cached manifest is replaced by a shorter-lived one from another publisher: the manifest and
    # its plan must go at the first cleanup past the manifest's deadline although the chunk itself lives on
    for ttl, rem, adv in [(40, 3, 5), (10, 3, 3), (40, 5, 6), (40, 10, 39), (5, 3, 4)]:
        cases.append({"ints": [1, NC, 0, 2, ttl, 0, 1, 2, rem, 0, 5, adv, 0, 0, 4, 0, 0, 0, 5, 1, 0, 0, 4, 0, 0, 0, 5, 40, 0, 0, 4, 0, 0, 0],
                      "tag": "short-manifest-over-held-chunk"})
    for _ in range(n):
        iv = rng.choice([1, 1, 5, 30])
        ints = [iv, NC]
        for _ in range(rng.choice([6, 14, 25, 40])):
            r = rng.random()
            if r < 0.2:
                ints += [0, rng.randrange(1, 4), rng.choice([2, 3, 5, 10, 40]), 0]
            elif r < 0.32:
                # a quarter of the ingested manifests are for an id the node may also hold locally (another publisher's
                # manifest, with its own -- shorter or longer -- lifetime, replaces the cached one)
                ints += [1, rng.randrange(4, 7) if rng.random() < 0.75 else rng.randrange(1, 4), rng.choice([0, 1, 3, 5, 10, 50]), 0]
            elif r < 0.45:
                ints += [2, rng.randrange(1, 7), rng.randrange(1, 4), rng.choice([1, 2, 5, 30])]
            elif r < 0.6:
                ints += [3, rng.randrange(1, 7), 0, 0]
            elif r < 0.8:
                ints += [4, 0, 0, 0]
            else:
                ints += [5, rng.choice([1, 1, 2, 3, 5, 10, 40]), 0, 0]
        cases.append({"ints": ints, "tag": "sequence"})
    return cases


def judge(case, impl, model):
    ints = case["ints"]
    if impl and impl[0] in (-2000, -1000):
        return {"fail": f"C05|abnormal|{impl[:2]}"}
    iv, nc = ints[0], ints[1]
    ops = [tuple(ints[i:i + 4]) for i in range(2, len(ints), 4)]
    now = 1000
    last_cleanup = 1000
    # reference deadlines (never forgotten): latest deadline of each kind per chunk
    chunk_dl = {}            # local chunk: deadline of the latest store
    reported_due = {}        # chunk -> number of expiries that must have been reported by now
    reported = {}            # chunk -> number reported
    manifest_dl, shard_dl = {}, {}
    holder_dl = {}           # (chunk, peer) -> deadline
    q = 0
    nontrivial = False
    try:
        for code, a, b, c in ops:
            cleaned = False
            if code == 0:
                chunk_dl[a] = now + b; manifest_dl[a] = now + b; shard_dl[a] = now + b; holder_dl[(a, 0)] = now + b
            elif code == 1:
                if b >= 1:
                    manifest_dl[a] = now + b; shard_dl[a] = now + b
            elif code == 2:
                holder_dl[(a, b)] = now + c
            elif code == 5:
                now += max(0, a)
            elif code == 4:
                if now - last_cleanup >= iv:
                    cleaned = True
                    last_cleanup = now
            k = impl[q]; q += 1
            drained = impl[q:q + k]; q += k
            for ch in drained:
                reported[ch] = reported.get(ch, 0) + 1
                if ch not in chunk_dl or now < chunk_dl[ch]:
                    return {"fail": "C05|chunk-reported-before-it-expired"}
                del chunk_dl[ch]           # that store has now been reported
                nontrivial = True
            if len(set(drained)) != len(drained):
                return {"fail": "C05|expiry-reported-twice"}
            per = [impl[q + 6 * i:q + 6 * i + 6] for i in range(nc)]; q += 6 * nc
            audit = impl[q:q + 3]; q += 3
            if cleaned:
                for ch in range(1, nc + 1):
                    held, man, plan, shard, locator, holders = per[ch - 1]
                    if ch in chunk_dl and now >= chunk_dl[ch]:
                        return {"fail": "C05|expired-chunk-not-reported-by-the-cleanup"}
                    if held and (ch not in chunk_dl):
                        return {"fail": "C05|expired-chunk-still-held-after-cleanup"}
                    if man and now >= manifest_dl.get(ch, 10 ** 18):
                        return {"fail": "C05|expired-manifest-still-cached-after-cleanup"}
                    if plan and now >= manifest_dl.get(ch, 10 ** 18):
                        return {"fail": "C05|swarm-plan-of-an-expired-manifest-after-cleanup"}
                    if shard and now >= shard_dl.get(ch, 10 ** 18):
                        return {"fail": "C05|expired-key-share-record-after-cleanup"}
                    live_holders = [p for (cc, p), dl in holder_dl.items() if cc == ch and now < dl]
                    if holders > len(live_holders):
                        return {"fail": "C05|expired-provider-contact-after-cleanup"}
                    if (ch, 0) in holder_dl and ch not in chunk_dl and holders and not [p for p in live_holders if p != 0] :
                        # only the node's own (withdrawn) announcement could account for a holder
                        return {"fail": "C05|own-announcement-of-an-expired-chunk-not-withdrawn"}
                if audit != [0, 0, 0]:
                    return {"fail": "C05|ttl-audit-reports-expired-entries-after-cleanup"}
    except IndexError:
        return {"fail": "C05|output-shape"}
    return {"nontrivial": nontrivial}
