"""C03 -- state learned from a manifest never outlives that manifest."""
ID = "C03"
FAMILY = "manifestttl"
RULE = ("a real Node (virtual clock with millisecond positions inside the second), TTL window (min, max) from (1, 86400), (30, "
        "21600), (60, 3600), (5, 5): for every record a fresh chunk and a manifest whose expiry lies -10 s .. +2 days from now "
        "(expired, exactly now, +1 s, min - 1, min, min + 1, max - 1, max, max + 1, far future, each with the clock 0, 1, 500 or "
        "999 ms into the second) arrives through ingest_manifest, through receive_chunk with the genuine replica bytes, or "
        "through handle_announce (advertised TTL 0, 1, min - 1, min, the manifest's own, larger, huge). Read back: manifest "
        "cached?, and the deadlines of the key-share record, the replica, the node's own announcement of the replica, and "
        "the announcer's contact. In 40% of the ingest records an earlier manifest for the SAME chunk id (expiring later, earlier, at the same time, or refused) was ingested just before: the key-share record must follow the newer manifest. A fourth path: an announce that assigns this node a shard, from a peer that cannot be reached "
        "(retry back-off 1, 3, 30, 45, 120 s): a pending fetch is created, the clock moves to 1 ms before / exactly / 1 ms / "
        "500 ms after the manifest's expiry, to around the end of the back-off, or anywhere, and the node ticks: read back "
        "whether the fetch is still pending. Oracle (independent of the model): a manifest that is expired or has less than min whole "
        "seconds left creates nothing; otherwise every deadline created is no later than the manifest's expiry and no "
        "later than now + max, and no fetch is pending after a tick at or after the manifest's expiry. non-trivial = an accepted manifest; distinct = distinct outputs")
ASSUMPTIONS = ["admission of announces (PoW, throttle, lock-out) is C21's: here difficulty 0 and a new sender per record",
               "the scheduling of pending fetches (limits, back-off ladder, counters) is C24's; here only that a fetch does not survive a tick after its manifest's expiry; the manifest cache itself is pruned by C05's tick",
               "the replica matches the manifest (C11)"]
TRUSTED = ["extraction: ExtrOcamlBasic only", "harness/impl_manifestttl.cpp (own NodeTestAccess friend, #define private public around "
           "KademliaTable.hpp), link-time replacement of the clocks"]
TIMEOUT = 900


def generate(rng, tier):
    n = {"quick": 40, "search": 80, "thorough": 500}[tier]
    cases = []
    for _ in range(n):
        mn, mx = rng.choice([(1, 86400), (30, 21600), (60, 3600), (5, 5), (1, 10)])
        ints = [mn, mx]
        for _ in range(rng.choice([8, 20, 40])):
            path = rng.randrange(3)
            rem = rng.choice([-10, 0, 1, 2, mn - 1, mn, mn + 1, mx - 1, mx, mx + 1, 2 * mx, 172800, rng.randrange(-5, mx + 50)])
            frac = rng.choice([0, 0, 1, 500, 999])
            adv = rng.choice([0, 1, mn - 1, mn, max(1, rem - 1), rem, rem + 1, mx, mx + 1, 10 ** 6]) if path == 2 else 0
            aux = 0
            if rng.random() < 0.3:
                # an announce that assigns a shard: a pending fetch to an unreachable peer, retry back-off aux seconds; then the
                # clock moves adv ms (around the manifest's expiry, around the end of the back-off) and the node ticks
                path = 3
                aux = rng.choice([1, 3, 30, 45, 120])
                rem = rng.choice([rem, mn, mn + 1, mn + 2, rng.randrange(mn, mn + 40)])
                left = rem * 1000 - frac
                adv = rng.choice([0, left - 1, left, left + 1, left + 500, min(aux, 60) * 1000 - 1, min(aux, 60) * 1000, min(aux, 60) * 1000 + 1,
                                  left + min(aux, 60) * 1000, rng.randrange(0, max(1, 2 * abs(left) + 2000))])
            elif path == 0 and rng.random() < 0.4:
                # a second manifest for a chunk id the node already has one for (ingested just before, expiring aux seconds
                # from the whole second -- later, earlier, equal, refused): the key-share record must follow the newer manifest
                path = 4
                aux = rng.choice([rem + 1, rem + 60, mx, 2 * mx, max(1, rem - 1), mn, mn + 1, rem, 0, rng.randrange(1, mx + 50)])
            ints += [path, rem, frac, max(0, adv), aux]
        cases.append({"ints": ints, "tag": "records"})
    return cases


def judge(case, impl, model):
    ints = case["ints"]
    if impl and impl[0] in (-2000, -1000):
        return {"fail": f"C03|abnormal|{impl[:2]}"}
    mn, mx = ints[0], ints[1]
    recs = [tuple(ints[i:i + 5]) for i in range(2, len(ints), 5)]
    if len(impl) != 5 * len(recs):
        return {"fail": "C03|output-shape"}
    nontrivial = False
    for i, (path, rem, frac, adv, aux) in enumerate(recs):
        acc, shards, replica, own, contact = impl[5 * i:5 * i + 5]
        left_ms = rem * 1000 - frac            # until the manifest expires
        name = ["ingest", "receive", "announce", "announce-with-assigned-shard", "ingest-after-an-earlier-manifest-for-the-same-chunk"][path]
        if path == 3:
            pend0, pend1, wait = replica, own, contact
            if left_ms <= 0 or left_ms // 1000 < mn:
                if acc or shards != -1 or pend0 or pend1:
                    return {"fail": f"C03|{name}-of-an-expired-or-too-short-lived-manifest-changed-state"}
                continue
            if shards > left_ms:
                return {"fail": f"C03|key-share-record-outlives-the-manifest|{name}"}
            if shards > mx * 1000:
                return {"fail": f"C03|key-share-record-beyond-the-maximum-ttl|{name}"}
            if pend1 and adv >= left_ms:
                return {"fail": "C03|pending-fetch-outlives-the-manifest"}
            if pend0:
                nontrivial = True
            continue
        dls = {"key-share-record": shards, "replica": replica, "own-announcement": own, "announcer-contact": contact}
        if left_ms <= 0 or left_ms // 1000 < mn:
            if path == 4:
                continue        # the refused manifest leaves what the earlier one created (that one is judged as an ingest elsewhere)
            if acc or any(v != -1 for v in dls.values()):
                return {"fail": f"C03|{name}-of-an-expired-or-too-short-lived-manifest-changed-state"}
            continue
        for what, v in dls.items():
            if v == -1:
                continue
            if v > left_ms:
                return {"fail": f"C03|{what}-outlives-the-manifest|{name}"}
            if v > mx * 1000:
                return {"fail": f"C03|{what}-beyond-the-maximum-ttl|{name}"}
        if acc:
            nontrivial = True
    return {"nontrivial": nontrivial}
