"""C12 -- a mutual handshake yields one shared session key."""
import hashlib
import hmac as pyhmac

ID = "C12"
FAMILY = "keyexchange"
P = 2147483647
G = 5
RULE = ("mode 1: KeyExchange::modexp on boundary and random operands (base 0,1,p-1,p,2^32-1,2^63,2^64-1; exponent 0,1,2,"
        "p-1,2^32-1; modulus 1,2,p,2^32-1 and random); mode 2: random and boundary private scalars a,b (0,1,2,p-2,p-1,p,"
        "2^32-1) through compute_public / derive_shared_secret / make_handshake_material / HMAC on both sides; mode 3: two "
        "real Nodes built from generated identity seeds and peer ids handshake with each other through "
        "generate_handshake_work / perform_handshake and both session keys are read back (the scalars the nodes drew are "
        "predicted by a python mt19937 + libstdc++ uniform_int_distribution and read back through the friend class); mode 4: "
        "validate_public around 0,1,2,p-1,p,p+1,2^32-1 and on values above p (p+2, 2p-1, 2p, 2^31+x, random); mode 5: derive_shared_secret with remote publics >= p (reduction); mode 6: a node handshakes with a peer, the peer restarts under the same peer id with a new identity seed and, an hour later (past the cool-down), both handshake again. "
        "Oracle (independent of the model): python pow(), hashlib, hmac -- publics are 5^a mod p, both ends hold the same key, "
        "the key is HMAC(SHA256(be32(5^(ab) mod p)), be32(min pub) || be32(max pub)), validate accepts exactly 1 < c < p. "
        "non-trivial = modes 2/3 with both publics valid; distinct = distinct implementation outputs")
ASSUMPTIONS = ["std::mt19937 / uniform_int_distribution are not modelled: the scalar a node draws is an input of the model "
               "(predicted in python, confirmed against the node through the friend class on every mode-3 case)",
               "kPrime = 2^31-1 is prime and 5 generates a large subgroup: not needed by any theorem here (agreement holds for any modulus)"]
TRUSTED = ["extraction: ExtrOcamlBasic only", "harness/impl_keyexchange.cpp (#define private public around KeyExchange.hpp, "
           "#include of Node.cpp, own NodeTestAccess friend)", "python pow/hashlib/hmac as oracle"]
TIMEOUT = 900


class MT32:
    def __init__(self, seed):
        self.mt = [0] * 624
        self.mt[0] = seed & 0xFFFFFFFF
        for i in range(1, 624):
            self.mt[i] = (1812433253 * (self.mt[i - 1] ^ (self.mt[i - 1] >> 30)) + i) & 0xFFFFFFFF
        self.i = 624

    def __call__(self):
        if self.i >= 624:
            mt = self.mt
            for k in range(624):
                y = (mt[k] & 0x80000000) | (mt[(k + 1) % 624] & 0x7FFFFFFF)
                v = mt[(k + 397) % 624] ^ (y >> 1)
                if y & 1:
                    v ^= 0x9908B0DF
                mt[k] = v
            self.i = 0
        y = self.mt[self.i]
        self.i += 1
        y ^= y >> 11
        y ^= (y << 7) & 0x9D2C5680
        y ^= (y << 15) & 0xEFC60000
        y ^= y >> 18
        return y & 0xFFFFFFFF


def draw_scalar(seed):
    """libstdc++ (GCC 11+) uniform_int_distribution<uint32_t>(2, p-2) over mt19937: Lemire's method"""
    g = MT32(seed)
    rng_range = (P - 2) - 2 + 1
    prod = g() * rng_range
    low = prod & 0xFFFFFFFF
    if low < rng_range:
        threshold = ((1 << 32) - rng_range) % rng_range
        while low < threshold:
            prod = g() * rng_range
            low = prod & 0xFFFFFFFF
    return (prod >> 32) + 2


def u64(v):
    return [(v >> 32) & 0xFFFFFFFF, v & 0xFFFFFFFF]


def generate(rng, tier):
    n = {"quick": 150, "search": 300, "thorough": 3000}[tier]
    cases = []
    bases = [0, 1, 2, 5, P - 1, P, P + 1, 2 ** 32 - 1, 2 ** 32, 2 ** 63, 2 ** 64 - 1]
    exps = [0, 1, 2, 3, P - 2, P - 1, P, 2 ** 32 - 1]
    mods = [1, 2, 3, P, 2 ** 31, 2 ** 32 - 1, 2 ** 32 - 5]
    for b in bases:
        for e in exps:
            for m in mods:
                cases.append({"ints": [1] + u64(b) + [e, m], "tag": "modexp-boundary"})
    scal = [0, 1, 2, 3, P - 2, P - 1, P, P + 1, 2 ** 32 - 1]
    for a in scal:
        for b in scal:
            cases.append({"ints": [2, a, b], "tag": "dh-boundary"})
    # also values above p whose residue mod p is an ordinary key: p + 2, p + 3, 2p - 1, 2p, 2^31 + x, anything in (p, 2^32)
    for c in [0, 1, 2, 3, P - 2, P - 1, P, P + 1, 2 ** 32 - 1, 2 ** 31, P + 2, P + 3, 2 * P - 1, 2 * P, 2 ** 32 - 3, 2 ** 31 + 5, 0xC0000000, 0xDEADBEEF] \
            + [rng.randrange(P + 2, 2 ** 32 - 2) for _ in range(12)] + [rng.randrange(2, P) for _ in range(6)]:
        cases.append({"ints": [4, c], "tag": "validate"})
    for i in range(n):
        r = rng.random()
        if r < 0.3:
            cases.append({"ints": [1] + u64(rng.getrandbits(64)) + [rng.getrandbits(32), rng.choice([P, rng.randrange(1, 2 ** 32)])], "tag": "modexp"})
        elif r < 0.6:
            cases.append({"ints": [2, rng.randrange(2, P - 1), rng.randrange(2, P - 1)], "tag": "dh"})
        elif r < 0.7:
            cases.append({"ints": [5, rng.getrandbits(32), rng.choice([P, P + 1, 2 ** 32 - 1, rng.getrandbits(32)]), rng.getrandbits(32)], "tag": "derive"})
        elif r < 0.75:
            cases.append({"ints": [4, rng.getrandbits(32)], "tag": "validate"})
        elif r < 0.85:
            sa, sb, sb2 = rng.getrandbits(32), rng.getrandbits(32), rng.getrandbits(32)
            ida = [rng.randrange(256) for _ in range(32)]
            idb = [rng.randrange(256) for _ in range(32)]
            cases.append({"ints": [6, draw_scalar(sa), draw_scalar(sb), draw_scalar(sb2), sa, sb, sb2] + ida + idb, "tag": "rehandshake"})
        else:
            sa, sb = rng.getrandbits(32), rng.getrandbits(32)
            if rng.random() < 0.1:
                sb = sa
            ida = [rng.randrange(256) for _ in range(32)]
            idb = [rng.randrange(256) for _ in range(32)]
            cases.append({"ints": [3, draw_scalar(sa), draw_scalar(sb), sa, sb] + ida + idb, "tag": "two-nodes"})
    return cases


def be32(v):
    return (v & 0xFFFFFFFF).to_bytes(4, "big")


def skey(priv, mine, remote):
    shared = hashlib.sha256(be32(pow(remote % P, priv, P))).digest()
    mat = be32(min(mine, remote)) + be32(max(mine, remote))
    return list(pyhmac.new(shared, mat, hashlib.sha256).digest())


def judge(case, impl, model):
    ints = case["ints"]
    mode = ints[0]
    if impl and impl[0] in (-2000, -1000):
        return {"fail": f"C12|abnormal|mode{mode}|{impl[:2]}"}
    if mode == 1:
        b = (ints[1] << 32) | ints[2]
        e, m = ints[3], ints[4]
        if impl != [pow(b, e, m)]:
            return {"fail": "C12|modexp-wrong"}
        return {"nontrivial": e > 1}
    if mode in (2, 3):
        if mode == 3:
            a, b = impl[0], impl[1]
            if [a, b] != ints[1:3]:
                return {"fail": "C12|scalar-prediction-differs-from-node (checker's mt19937 or the node's key generation changed)"}
            rest = impl[2:]
            if not (2 <= a <= P - 2 and 2 <= b <= P - 2):
                return {"fail": "C12|scalar-out-of-range"}
        else:
            a, b = ints[1], ints[2]
            rest = impl
        pa, pb = pow(G, a, P), pow(G, b, P)
        if rest[:2] != [pa, pb]:
            return {"fail": "C12|public-key-not-g^a"}
        va, vb = int(1 < pa < P), int(1 < pb < P)
        if mode == 2 and rest[2:4] != [va, vb]:
            return {"fail": "C12|validate-public-wrong"}
        if mode == 3 and rest[2:4] != [1, 1]:
            return {"fail": "C12|valid-handshake-rejected"}
        ka, kb = rest[4:36], rest[36:68]
        if ka != kb:
            return {"fail": "C12|ends-hold-different-keys"}
        if ka != skey(a, pa, pb):
            return {"fail": "C12|key-is-not-hmac-of-dh-and-both-publics"}
        return {"nontrivial": bool(va and vb)}
    if mode == 6:
        if impl[:1] in ([-8], [-9]):
            return {"fail": "C12|valid-handshake-rejected"}
        a, b, b2 = impl[:3]
        if [a, b, b2] != ints[1:4]:
            return {"fail": "C12|scalar-prediction-differs-from-node (checker's mt19937 or the node's key generation changed)"}
        ka, kb = impl[3:35], impl[35:67]
        if ka != kb:
            return {"fail": "C12|ends-hold-different-keys|after-rehandshake"}
        if ka != skey(a, pow(G, a, P), pow(G, b2, P)):
            return {"fail": "C12|key-is-not-hmac-of-dh-and-both-publics|after-rehandshake"}
        return {"nontrivial": True}
    if mode == 4:
        if impl != [int(1 < ints[1] < P)]:
            return {"fail": "C12|validate-public-wrong"}
        return {"nontrivial": True}
    if mode == 5:
        a, rp, mp = ints[1:4]
        want = list(hashlib.sha256(be32(pow(rp % P, a, P))).digest()) + list(be32(min(mp, rp)) + be32(max(mp, rp)))
        if impl != want:
            return {"fail": "C12|derive-or-material-wrong"}
        return {"nontrivial": True}
    return {}
