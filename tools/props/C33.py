"""C33 -- STUN responses are parsed exactly and safely."""
ID = "C33"
FAMILY = "stun"
RULE = ("datagrams of 0..512 bytes given to the real parse_stun_response in an exact-size heap block under ASan+UBSan: "
        "RFC 5389 responses built by an independent python encoder (MAPPED / XOR-MAPPED, IPv4 / IPv6, preceded by 0..4 "
        "other attributes with lengths 0..40 and every padding), then mutated: truncation at every offset, message-length "
        "field off by -8..+8 and 0xffff, attribute length overwritten (0,3,4,7,8,19,20,0xffff), wrong type (every single-bit change of 0x0101, both top bits, other classes and methods, random types), wrong "
        "transaction id byte, family byte 0/1/2/3, a header cookie field other than the magic cookie (decoding must not change), "
        "an address attribute whose declared length is 1..7 / 5..19 (too short for its family) followed by padding, by another "
        "attribute or by the end of the datagram (nothing may be decoded from it), plus random bytes. Oracle (independent of the model): for an "
        "unmutated response the reported (family, address, port) equals what was encoded; for a wrong type / txid nothing "
        "is reported; never a sanitizer report. non-trivial = an address was reported or the datagram has a valid "
        "header; distinct = distinct implementation outputs")
ASSUMPTIONS = ["inet_ntop text is converted back with inet_pton in the harness (the model reports address bytes)"]
TRUSTED = ["extraction: ExtrOcamlBasic only", "harness/impl_stun.cpp (#include of NatTraversal.cpp)"]
TIMEOUT = 600
COOKIE = [0x21, 0x12, 0xA4, 0x42]


def lp(b):
    return [len(b)] + list(b)


def tlv(ty, val):
    pad = (4 - len(val) % 4) % 4
    return [ty >> 8, ty & 255, len(val) >> 8, len(val) & 255] + list(val) + [0] * pad


def response(txid, body, ty=0x0101):
    return [ty >> 8, ty & 255, len(body) >> 8, len(body) & 255] + COOKIE + list(txid) + list(body)


def build(rng):
    txid = [rng.randrange(256) for _ in range(12)]
    fam = rng.choice([1, 2])
    addr = [rng.choice([0, 255, rng.randrange(256)]) for _ in range(4 if fam == 1 else 16)]
    port = rng.choice([0, 1, 80, 0x2112, 65535, rng.randrange(65536)])
    xored = rng.random() < 0.6
    body = []
    for _ in range(rng.choice([0, 0, 1, 2, 4])):
        t = rng.choice([0x8022, 0x8028, 0x0006, 0x0009, 0x0003])
        body += tlv(t, [rng.randrange(256) for _ in range(rng.choice([0, 1, 2, 3, 4, 5, 7, 8, 20, 40]))])
    if xored:
        key = COOKIE + txid
        val = [0, fam, (port >> 8) ^ 0x21, (port & 255) ^ 0x12] + [a ^ key[i] for i, a in enumerate(addr)]
        body += tlv(0x0020, val)
    else:
        body += tlv(0x0001, [0, fam, port >> 8, port & 255] + addr)
    addr_off = len(body)
    if rng.random() < 0.4:
        body += tlv(0x8022, [rng.randrange(256) for _ in range(rng.randrange(12))])
    return txid, body, (fam, addr, port), addr_off


def generate(rng, tier):
    n = {"quick": 150, "search": 300, "thorough": 3000}[tier]
    cases = []

    def add(data, txid, tag, expect=None):
        cases.append({"ints": [1] + lp(data) + lp(txid), "tag": tag, "expect": expect})

    for ln in [0, 1, 19, 20, 21, 24]:
        add([1, 1, 0, max(0, ln - 20)] + [0] * max(0, ln - 4), [0] * 12, "tiny")
    for i in range(n):
        txid, body, exp, _ = build(rng)
        data = response(txid, body)
        add(data, txid, "valid", expect=list(exp))
        if i % 5 == 0:
            # address attribute last, message length and datagram 1..4 bytes short of its value
            txid2, body2, _, off2 = build(rng)
            body2 = body2[:off2]
            for short in (1, 2, 3, 4):
                m = response(txid2, body2)
                v = len(body2) - short
                m[2], m[3] = v >> 8, v & 255
                add(m[:20 + v], txid2, "tightlen")
        if i % 3 == 0:
            # (a) the header's cookie field is not the magic cookie: the parser never checks it, and RFC 5389 derives the
            #     XOR key from the CONSTANT cookie + transaction id, so the decoding must not change
            m = list(data)
            ck = rng.choice([[0, 0, 0, 0], [255, 255, 255, 255], [rng.randrange(256) for _ in range(4)]])
            m[4:8] = ck
            add(m, txid, "cookie-field", expect=list(exp))
            # (b) the address attribute declares a length that is too short for its family (1..7 / 9..19) while the bytes
            #     of a full address follow as padding / next attribute / end of datagram: nothing may be decoded from it
            txid3, body3, exp3, off3 = build(rng)
            start = None
            o = 0
            while o + 4 <= off3:
                al = (body3[o + 2] << 8) | body3[o + 3]
                nxt = o + 4 + ((al + 3) & ~3)
                if nxt == off3:
                    start = o
                o = nxt
            if start is not None:
                full = 8 if exp3[0] == 1 else 20
                for v in ([1, 2, 3, 5, 6, 7] if full == 8 else [5, 6, 7, 9, 17, 18, 19]):
                    b = list(body3[:off3])
                    b[start + 2], b[start + 3] = v >> 8, v & 255
                    add(response(txid3, b), txid3, "short-addr-attr", expect=[])          # address attr last, padded
                    bb = b[:start + 4 + v]                                            # datagram ends with the short value
                    add(response(txid3, bb), txid3, "short-addr-attr-tight", expect=[])
                    add(response(txid3, b + tlv(0x8022, [1, 2, 3, 4])), txid3, "short-addr-attr", expect=[])
        if i < 3:
            # the type gate: every single-bit change of 0x0101 (the two top bits are not part of class or method), both top
            # bits, the other class / method values with and without top bits, and a few random 16-bit types
            for ty in sorted({0x0101 ^ (1 << b) for b in range(16)} | {0xC101, 0x0000, 0xFFFF, 0x0001, 0x0011, 0x0111, 0x4111, 0x8001,
                                                                      0x0102, 0x0103, 0x1101, 0x2101} | {rng.randrange(65536) for _ in range(6)}):
                if ty != 0x0101:
                    add(response(txid, body, ty=ty), txid, "wrongtype", expect=[])
        r = rng.random()
        if r < 0.25:
            for cut in (range(len(data)) if i < 6 else [rng.randrange(len(data)) for _ in range(4)]):
                add(data[:cut], txid, "truncate")
        elif r < 0.45:
            for d in [-8, -4, -1, 1, 3, 4, 8]:
                m = list(data); v = max(0, min(65535, len(body) + d)); m[2], m[3] = v >> 8, v & 255
                add(m, txid, "msglen")
            m = list(data); m[2] = m[3] = 255
            add(m, txid, "msglen")
        elif r < 0.65:
            m = list(data)
            off = 20
            offs = []
            while off + 4 <= len(m):
                offs.append(off)
                al = (m[off + 2] << 8) | m[off + 3]
                off += 4 + ((al + 3) & ~3)
            o = rng.choice(offs)
            v = rng.choice([0, 3, 4, 7, 8, 19, 20, 21, 0xffff, rng.randrange(64)])
            m[o + 2], m[o + 3] = v >> 8, v & 255
            add(m, txid, "attrlen")
        elif r < 0.75:
            add(response(txid, body, ty=rng.choice([0x0001, 0x0111, 0x0100, 0x0201])), txid, "wrongtype", expect=[])
        elif r < 0.85:
            t2 = list(txid); t2[rng.randrange(12)] ^= 1 << rng.randrange(8)
            add(data, t2, "wrongtxid", expect=[])
        elif r < 0.92:
            m = list(data)
            j = rng.randrange(20, len(m)); m[j] = rng.choice([0, 1, 2, 3, 255])
            add(m, txid, "bytemut")
        else:
            add([rng.randrange(256) for _ in range(rng.choice([20, 28, 32, 64, 512]))], txid, "random")
    return cases


def judge(case, impl, model):
    if impl and impl[0] == -2000:
        return {"fail": f"C33|crash|kind={impl[1]}"}
    if impl and impl[0] == -1000:
        return {"fail": f"C33|exception|class={impl[1]}"}
    if impl and impl[0] == -3:
        return {"fail": "C33|not-an-address"}
    exp = case.get("expect")
    if exp is not None:
        if exp == [] and impl != [0]:
            return {"fail": "C33|reported-for-" + case["tag"]}
        if exp:
            fam, addr, port = exp
            if impl != [1, fam] + addr + [port]:
                return {"fail": "C33|wrong-decoding|fam=%d" % fam}
    return {"nontrivial": impl[0] == 1 or case["tag"] in ("valid", "attrlen", "msglen", "bytemut", "tightlen")}


def outcome_class(case, impl):
    return {0: "none", 1: "address"}.get(impl[0] if impl else None, "other")
