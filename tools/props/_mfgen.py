"""Shared generators for the manifest family (C17, C18).  Not a plugin."""
import base64

B = 10 ** 9


def rb(rng, n):
    return [rng.randrange(256) for _ in range(n)]


def lp(b):
    return [len(b)] + list(b)


def rlen8(rng):
    return rng.choice([0, 0, 1, 2, 5, 17, 254, 255])


def rlen16(rng, big):
    c = [0, 1, 3, 20, 255, 256, 257]
    if big:
        c += [65534, 65535]
    return rng.choice(c)


def rand_manifest(rng, big=False, over=None):
    """over: name of a field to make unrepresentable (None = representable)."""
    ns_choices = [0, 1, B - 1, B, B + 1, 1700000000 * B + 123456789, -1, -B, -B - 1, -5 * B + 7,
                  2 ** 63 - 1, -2 ** 63, 9223372036 * B, -9223372036 * B, 4102444800 * B]
    m = {
        "chunk_id": rb(rng, 32), "hash": rb(rng, 32), "nonce": rb(rng, 12),
        "threshold": rng.randrange(256), "total": rng.randrange(256),
        "expires_ns": rng.choice(ns_choices + [rng.randrange(-2 ** 40, 2 ** 62)]),
        "shards": [{"index": rng.randrange(256), "value": rb(rng, 32)} for _ in range(rng.choice([0, 1, 2, 3, 5, 8, 255 if big else 9]))],
        "meta": {}, "hints": [], "token_bits": rng.randrange(256), "advisory": rb(rng, rlen16(rng, big)),
        "attest": rb(rng, 32) if rng.random() < 0.5 else None, "fallbacks": [],
    }
    for _ in range(rng.choice([0, 1, 2, 4, 255 if big else 6])):
        m["meta"][bytes(rb(rng, rng.choice([0, 1, 2, 3, 8, 255])))] = rb(rng, rlen16(rng, big and rng.random() < 0.1))
    for _ in range(rng.choice([0, 1, 2, 3, 255 if big else 4])):
        m["hints"].append({"scheme": rb(rng, rng.choice([0, 0, 3, 7, 255])), "transport": rb(rng, rlen8(rng)),
                           "endpoint": rb(rng, rlen16(rng, False)), "priority": rng.randrange(256)})
    # scheme / transport pairs that are related (equal, equal up to letter case, prefix of each other): the scheme is a
    # field of its own and must come back byte for byte unless it was empty
    if rng.random() < 0.5 and len(m["hints"]) < 250:
        w = list(rng.choice([b"tcp", b"control", b"relay", b"transport", b"Udp", b"a", b"Z"]))
        k = rng.randrange(6)
        if k == 0:
            sch, tr = list(w), list(w)
        elif k == 1:
            sch, tr = [c ^ 0x20 for c in w], list(w)
        elif k == 2:
            sch, tr = list(w), [c ^ 0x20 for c in w]
        elif k == 3:
            sch, tr = [w[0] ^ 0x20] + w[1:], list(w)
        elif k == 4:
            sch, tr = w[:-1] or [120], list(w)
        else:
            sch, tr = list(w), w + [115]
        m["hints"].insert(rng.randrange(len(m["hints"]) + 1),
                          {"scheme": sch, "transport": tr, "endpoint": rb(rng, rng.choice([0, 9])), "priority": rng.randrange(256)})
    for _ in range(rng.choice([0, 1, 2, 255 if big else 3])):
        m["fallbacks"].append({"uri": rb(rng, rlen16(rng, False)), "priority": rng.randrange(256)})
    if over == "shards":
        m["shards"] = [{"index": i % 256, "value": rb(rng, 32)} for i in range(rng.choice([256, 257, 300, 511, 512]))]
    elif over == "meta_count":
        m["meta"] = {bytes([i // 256, i % 256]): [] for i in range(rng.choice([256, 300]))}
    elif over == "meta_key":
        m["meta"][bytes(rb(rng, rng.choice([256, 300])))] = [1]
    elif over == "meta_value":
        m["meta"][b"k"] = rb(rng, rng.choice([65536, 65540]))
    elif over == "hint_count":
        m["hints"] = [{"scheme": [], "transport": [116], "endpoint": [], "priority": 0} for _ in range(rng.choice([256, 257]))]
    elif over == "hint_scheme":
        m["hints"].append({"scheme": rb(rng, 256), "transport": [1], "endpoint": [], "priority": 1})
    elif over == "hint_transport_as_scheme":
        m["hints"].append({"scheme": [], "transport": rb(rng, 256), "endpoint": [], "priority": 1})
    elif over == "hint_transport":
        m["hints"].append({"scheme": rb(rng, rng.choice([1, 7, 255])), "transport": rb(rng, rng.choice([256, 257, 300, 4096, 65535, 65536])),
                           "endpoint": [], "priority": 1})
    elif over == "hint_endpoint":
        m["hints"].append({"scheme": [2], "transport": [1], "endpoint": rb(rng, 65536), "priority": 1})
    elif over == "fallback_count":
        m["fallbacks"] = [{"uri": [], "priority": 0} for _ in range(256)]
    elif over == "fallback_uri":
        m["fallbacks"].append({"uri": rb(rng, 65536), "priority": 3})
    elif over == "advisory":
        m["advisory"] = rb(rng, 65536)
    return m


OVERS = ["shards", "meta_count", "meta_key", "meta_value", "hint_count", "hint_scheme", "hint_transport_as_scheme", "hint_transport",
         "hint_endpoint", "fallback_count", "fallback_uri", "advisory"]


def manifest_ints(m):
    out = m["chunk_id"] + m["hash"] + m["nonce"] + [m["threshold"], m["total"]]
    out += [m["expires_ns"] // B, m["expires_ns"] % B]
    out += [len(m["shards"])]
    for s in m["shards"]:
        out += [s["index"]] + s["value"]
    keys = sorted(m["meta"])
    out += [len(keys)]
    for k in keys:
        out += lp(list(k)) + lp(m["meta"][k])
    out += [len(m["hints"])]
    for h in m["hints"]:
        out += lp(h["scheme"]) + lp(h["transport"]) + lp(h["endpoint"]) + [h["priority"]]
    out += [m["token_bits"]] + lp(m["advisory"])
    out += ([1] + m["attest"]) if m["attest"] is not None else [0]
    out += [len(m["fallbacks"])]
    for f in m["fallbacks"]:
        out += lp(f["uri"]) + [f["priority"]]
    return out


def trunc_quot(a, b):
    q = abs(a) // b
    return q if a >= 0 else -q


def normalised(m):
    n = dict(m)
    n["expires_ns"] = trunc_quot(m["expires_ns"], B) * B
    n["hints"] = [dict(h, scheme=(h["scheme"] or h["transport"])) for h in m["hints"]]
    return n


def representable(m):
    if len(m["shards"]) > 255 or len(m["meta"]) > 255 or len(m["hints"]) > 255 or len(m["fallbacks"]) > 255:
        return False
    if any(len(k) > 255 or len(v) > 65535 for k, v in m["meta"].items()):
        return False
    if any(len(h["scheme"] or h["transport"]) > 255 or len(h["transport"]) > 255 or len(h["endpoint"]) > 65535 for h in m["hints"]):
        return False
    if any(len(f["uri"]) > 65535 for f in m["fallbacks"]) or len(m["advisory"]) > 65535:
        return False
    return True


def be(v, n):
    return list(int(v % (256 ** n)).to_bytes(n, "big"))


def py_payload(m, version=4, expires_u64=None):
    """Independent python rendering of the binary payload for versions 1..4 (inputs for the decoder)."""
    out = [version] + m["chunk_id"] + m["hash"] + m["nonce"]
    out += be(trunc_quot(m["expires_ns"], B) if expires_u64 is None else expires_u64, 8)
    out += [m["threshold"], m["total"], len(m["shards"]) % 256]
    for s in m["shards"]:
        out += [s["index"]] + s["value"]
    if version == 1:
        return out
    keys = sorted(m["meta"])
    out += [len(keys) % 256]
    for k in keys:
        out += [len(k) % 256] + list(k) + be(len(m["meta"][k]), 2) + m["meta"][k]
    if version == 2:
        return out
    out += [len(m["hints"]) % 256]
    for h in m["hints"]:
        if version >= 4:
            sch = h["scheme"] or h["transport"]
            out += [len(sch) % 256] + sch
        out += [len(h["transport"]) % 256] + h["transport"] + be(len(h["endpoint"]), 2) + h["endpoint"] + [h["priority"]]
    out += [m["token_bits"]] + be(len(m["advisory"]), 2) + m["advisory"]
    out += ([1] + m["attest"]) if m["attest"] is not None else [0]
    out += [len(m["fallbacks"]) % 256]
    for f in m["fallbacks"]:
        out += be(len(f["uri"]), 2) + f["uri"] + [f["priority"]]
    return out


def to_uri(payload):
    return list(b"eph://" + base64.b64encode(bytes(payload)))
