"""C30 -- `eph fetch` only writes bytes that match the manifest."""
ID = "C30"
FAMILY = "fetchcli"
RULE = ("src/main.cpp is compiled into the harness and the real `eph fetch <uri> --out <file>` command runs (default mode, "
        "--direct-only, --transport-only, --control-fallback) on a manifest made by a real publisher Node for a payload of 1, 2, "
        "5, 63, 64, 65, 200 or a random number of bytes, whose discovery hints are 0..5 scripted endpoints with priorities (ties "
        "included): transport hints served by real Nodes with the publisher's identity on 127.0.0.1 (the genuine record; a "
        "record that decrypts to other bytes: one byte flipped, truncated, extended, unrelated; no record: negative "
        "acknowledgement; a closed port), control hints and control:// fallbacks served by a scripted control endpoint (the "
        "payload; other bytes: flipped, truncated, extended, empty, unrelated, or -- in a quarter of the cases -- bytes whose "
        "SHA-256 agrees with the payload's in its XOR fold, byte sum, first two, last two, or first and last byte; STATUS:OK "
        "without payload; STATUS:ERROR; "
        "closed port), and the local daemon scripted the same way; in a fifth of the cases the manifest has expired on the CLI's "
        "clock, in a seventh its content hash is 32 zero bytes (the hash is chosen by whoever hands out the URI; nothing matches it). Read back: exit code, the output file, which endpoint the "
        "CLI says served, how many control requests each endpoint received. Oracle (independent of the model: hashlib): "
        "an output file exists only with exit code 0 and its SHA-256 is the manifest's (= the payload's); the endpoint that "
        "served answered with the genuine payload (or 'written on the daemon host', then no file); no endpoint is asked "
        "after one has served. non-trivial = an endpoint returning other bytes was asked; distinct = distinct outputs")
ASSUMPTIONS = ["SHA-256 collision resistance is what turns 'the hash matches' into 'the bytes are the stored ones'",
               "relay hints are not exercised (a relay carries the same transport session: the bytes go through the same "
               "decrypt_chunk_with_manifest check as a direct transport hint)",
               "a manifest the CLI cannot decode has no hash to compare with: then only the local daemon is asked (not modelled)",
               "a transport peer's answer is modelled as the bytes its record decrypts to (ChaCha20 is a stream cipher: C11)"]
TRUSTED = ["extraction: ExtrOcamlBasic only", "harness/impl_fetchcli.cpp (#include of main.cpp with main renamed, scripted control "
           "endpoints on 127.0.0.1, real Nodes as transport peers, friend access to put a tampered record)", "python hashlib as oracle"]
TIMEOUT = 1500

import hashlib


def lp(b):
    return [len(b)] + list(b)


def variant(rng, P, allow_empty):
    kind = rng.choice(["flip", "trunc", "ext", "other", "empty"] if allow_empty else ["flip", "trunc", "ext", "other"])
    if kind == "flip":
        b = bytearray(P); i = rng.randrange(len(b)); b[i] ^= 1 << rng.randrange(8); return bytes(b)
    if kind == "trunc":
        b = P[:rng.randrange(0 if allow_empty else 1, len(P))] if len(P) > 1 else (b"" if allow_empty else bytes([P[0] ^ 1]))
        return b if (b or allow_empty) else bytes([P[0] ^ 1])
    if kind == "ext":
        return P + bytes(rng.randrange(256) for _ in range(rng.choice([1, 2, 16])))
    if kind == "other":
        return bytes(rng.randrange(256) for _ in range(rng.choice([1, len(P), len(P) + 3])))
    return b""


NEAR = ["xor-fold", "sum", "first2", "last2", "ends"]


def near_miss(rng, P, kind=None):
    """other bytes whose SHA-256 agrees with the payload's on what a careless comparison looks at: the XOR of all digest bytes,
       the byte sum, the first two bytes, the last two bytes, or the first and the last byte"""
    want = hashlib.sha256(P).digest()

    def fold(d):
        x = 0
        for b in d:
            x ^= b
        return x
    kind = kind or rng.choice(NEAR)
    base = bytes(rng.randrange(256) for _ in range(max(1, len(P))))
    for k in range(200000):
        cand = base + str(k).encode()
        d = hashlib.sha256(cand).digest()
        if cand != P and ((kind == "xor-fold" and fold(d) == fold(want)) or (kind == "sum" and sum(d) % 256 == sum(want) % 256)
                          or (kind == "first2" and d[:2] == want[:2]) or (kind == "last2" and d[-2:] == want[-2:])
                          or (kind == "ends" and d[0] == want[0] and d[-1] == want[-1])):
            return cand
    return base


def generate(rng, tier):
    n = {"quick": 120, "search": 200, "thorough": 1200}[tier]
    cases = []
    # every kind of near miss on every kind of path, as the only path (so that it is certainly asked)
    for kind in NEAR:
        for path in (0, 1, 2, 3):
            P = bytes(rng.randrange(256) for _ in range(rng.choice([1, 5, 64, 200])))
            b = near_miss(rng, P, kind)
            ints = [0, 0] + lp(P)
            if path == 3:
                ints += [0, 2] + lp(b)
            else:
                ints += [1, path, 1, 2] + lp(b) + [rng.choice([0, 1])]
            cases.append({"ints": ints, "tag": f"nearmiss-{kind}-path{path}"})
    for path in (0, 1, 2, 3):
        P = bytes(rng.randrange(256) for _ in range(rng.choice([1, 5, 64, 200])))
        ints = [0, 2] + lp(P)
        if path == 3:
            ints += [0, 2] + lp(P)
        else:
            ints += [1, path, 1, 2] + lp(P) + [rng.choice([0, 1])]
        cases.append({"ints": ints, "tag": f"zerohash-path{path}"})
    for ci in range(n - len(cases)):
        ln = rng.choice([1, 2, 5, 63, 64, 65, 200, rng.randrange(1, 300)])
        P = bytes(rng.randrange(256) for _ in range(ln))
        mode = rng.choice([0, 0, 0, 1, 2, 3])
        expired = 1 if rng.random() < 0.2 else 0
        if rng.random() < 0.15:
            expired += 2          # the manifest's content hash is 32 zero bytes: no endpoint's bytes match it
        nh = rng.choice([0, 1, 1, 2, 2, 3, 4, 5])
        ints = [mode, expired] + lp(P) + [nh]
        tricky = rng.random() < 0.25          # this case's wrong payloads are near misses of the hash comparison
        meta = []
        for _ in range(nh):
            kind = rng.choice([0, 1, 1, 2])
            prio = rng.choice([0, 1, 1, 2, 5, 255])
            if kind == 0:
                code = rng.choice([0, 1, 2, 2, 2])
            else:
                code = rng.choice([0, 1, 2, 2, 2, 2, 3])
            ints += [kind, prio, code]
            if code == 2:
                b = P if rng.random() < 0.4 else (near_miss(rng, P) if tricky else variant(rng, P, allow_empty=(kind != 0)))
                ints += lp(b)
        lcode = rng.choice([0, 1, 2, 2, 2, 3])
        ints += [lcode]
        if lcode == 2:
            ints += lp(P if rng.random() < 0.5 else (near_miss(rng, P) if tricky else variant(rng, P, True)))
        cases.append({"ints": ints, "tag": f"mode{mode}" + ("-expired" if expired & 1 else "") + ("-zerohash" if expired & 2 else "") + ("-nearmiss" if tricky else "")})
    return cases


def parse(ints):
    p = 0
    mode = ints[p]; p += 2          # mode, expired
    ln = ints[p]; P = bytes(ints[p + 1:p + 1 + ln]); p += 1 + ln
    nh = ints[p]; p += 1
    hints = []
    for _ in range(nh):
        kind, prio, code = ints[p:p + 3]; p += 3
        b = None
        if code == 2:
            l2 = ints[p]; b = bytes(ints[p + 1:p + 1 + l2]); p += 1 + l2
        hints.append((kind, prio, code, b))
    lcode = ints[p]; p += 1
    lb = None
    if lcode == 2:
        l2 = ints[p]; lb = bytes(ints[p + 1:p + 1 + l2])
    return mode, P, hints, (lcode, lb)


def judge(case, impl, model):
    if not impl or impl[0] in (-2000, -1000):
        return {"fail": f"C30|abnormal|{impl[:2]}"}
    mode, P, hints, local = parse(case["ints"])
    rc = impl[0]
    q = 1
    got = None
    if impl[q] == 1:
        ln = impl[q + 1]; got = bytes(impl[q + 2:q + 2 + ln]); q += 2 + ln
    else:
        q += 1
    served = impl[q]; q += 1
    counts = impl[q:q + len(hints)]; q += len(hints)
    lcount = impl[q]
    if rc not in (0, 1):
        return {"fail": f"C30|exit-code|{rc}"}
    zero_hash = case["ints"][1] >= 2
    want = bytes(32) if zero_hash else hashlib.sha256(P).digest()
    asked_bad = any(c > 0 and h[2] == 2 and h[3] != P for c, h in zip(counts, hints)) or (lcount > 0 and local[0] == 2 and local[1] != P) \
        or any(h[0] == 0 and h[2] == 2 and h[3] != P for h in hints if mode != 3)
    if got is not None:
        if hashlib.sha256(got).digest() != want:
            who = "local-daemon" if served == 100 else (["transport-hint", "control-hint", "control-fallback"][hints[served][0]] if 0 <= served < len(hints) else "unknown")
            return {"fail": f"C30|file-does-not-match-the-manifest|{who}", "nontrivial": True}
        if rc != 0:
            return {"fail": "C30|file-written-although-the-command-failed", "nontrivial": True}
    if rc == 0:
        if served == 100:
            r = local
        elif 0 <= served < len(hints):
            r = hints[served][2:4]
        else:
            return {"fail": "C30|success-without-a-serving-endpoint"}
        if r[0] == 2:
            if zero_hash:
                return {"fail": "C30|payload-accepted-for-a-manifest-whose-hash-it-does-not-match", "nontrivial": True}
            if r[1] != P:
                return {"fail": "C30|an-endpoint-returning-other-bytes-served", "nontrivial": True}
            if got != P:
                return {"fail": "C30|genuine-payload-not-written", "nontrivial": True}
        elif r[0] == 3:
            if got is not None:
                return {"fail": "C30|file-written-for-a-response-without-payload"}
        else:
            return {"fail": "C30|a-failing-endpoint-served"}
        # nobody is asked after the serving endpoint: the local daemon only when no hint served
        if served != 100 and lcount != 0:
            return {"fail": "C30|local-daemon-asked-after-a-hint-served"}
    if max([c for c in counts if c >= 0] + [lcount, 0]) > 1:
        return {"fail": "C30|an-endpoint-was-asked-twice"}
    return {"nontrivial": bool(asked_bad)}
