"""C36 -- daemon threads never race on shared node state."""
import sys
from pathlib import Path

sys.path.insert(0, str(Path(__file__).resolve().parents[1] / "lockset"))
sys.path.insert(0, str(Path(__file__).resolve().parents[1]))
import table as lt  # noqa: E402
from ephverif.paths import BUILD, REPO  # noqa: E402

ID = "C36"
FAMILY = "lockset"
RULE = ("the access table of Node's 36 fields is regenerated from the clang AST of the current src/core/Node.cpp (every access a "
        "session-thread callback or a control / tick entry point can reach through the call graph, reading or writing, with "
        "scheduler_mutex_ held there or not); Properties_C36.v is re-checked against it (the racy fields are exactly the recorded "
        "ones; every other field never has two threads at conflicting accesses, in any schedule). One case per field of Node: "
        "the field's rows go through the extracted decision function and an independent C++ evaluation; plus perturbed tables "
        "(a lock dropped from one row, a read turned into a write, a role changed) on which both must agree. Oracle: a field is "
        "reported when a session-thread access and any other access conflict without both holding scheduler_mutex_ (python, "
        "from the translator's rows). non-trivial = a field that session threads touch; distinct = distinct outputs")
ASSUMPTIONS = ["the tie between the table and the code is the translator (tools/lockset/analyze.py, table.py): a lock is a local "
               "variable of a lock type constructed on scheduler_mutex_, held to the end of its compound statement; calls to Node "
               "methods are followed with the caller's locks; lambdas run inline except those passed to set_*handler / set_*builder, "
               "which are the session threads' entry points; control entry points are the Node methods ControlServer.cpp and "
               "main.cpp call, assumed to be called under node_mutex",
               "a local pointer / reference / iterator initialised from (or assigned) an expression that mentions a field points into "
               "that field: every later use of it in the method is an access to the field under the locks held at the use (so a "
               "pointer that escapes its lock's scope is seen); not seen: pointers handed to other functions or stored in members, "
               "state inside member objects reached without going through a Node method, threads other than session and control / tick "
               "(NAT, relay client)",
               "fields whose own type synchronises (std::atomic, a class with its own mutex) are left out; that those classes use "
               "their mutex correctly is not examined",
               "no thread is run: ThreadSanitizer on a stress harness (two session threads against control-role calls) showed only "
               "a race inside SessionManager's session objects in 2.5 s and none of the table's, so it is not used as an oracle"]
TRUSTED = ["clang 14 -ast-dump=json", "tools/lockset (translator)", "extraction: ExtrOcamlBasic only", "harness/impl_lockset.cpp (second evaluation of the decision)"]
TIMEOUT = 600


def _table():
    return lt.cached(REPO, BUILD / "lockset")


def generate(rng, tier):
    t = _table()
    names = t["fields"]; idx = {n: i for i, n in enumerate(names)}
    sync = sorted(idx[f] for f in t["sync"])
    cases = []
    by_field = {}
    for f, rw, role, line, sched, meth in t["rows"]:
        by_field.setdefault(f, []).append([idx[f], rw, role, line, sched])
    for f in names:
        rows = by_field.get(f, [])
        ints = [len(names), len(sync)] + sync + [x for r in rows for x in r]
        cases.append({"ints": ints, "tag": "field:" + f})
    # perturbed tables: the decision function itself
    n = {"quick": 60, "search": 60, "thorough": 600}[tier]
    pool = [f for f in names if by_field.get(f)]
    for _ in range(n):
        f = rng.choice(pool)
        rows = [list(r) for r in by_field[f]]
        for _ in range(rng.randrange(1, 4)):
            r = rng.choice(rows); k = rng.choice([1, 2, 4]); r[k] = 1 - r[k]
        ints = [len(names), 0] + [x for r in rows for x in r]
        cases.append({"ints": ints, "tag": "perturbed:" + f})
    return cases


def judge(case, impl, model):
    if impl and impl[0] in (-2000, -1000):
        return {"fail": f"C36|abnormal|{impl[:2]}"}
    tag = case["tag"]
    ints = case["ints"]
    n, ns = ints[0], ints[1]
    sync = set(ints[2:2 + ns])
    body = ints[2 + ns:]
    rows = [tuple(body[i:i + 5]) for i in range(0, len(body), 5)]
    racy = set()
    for a in rows:
        if a[2] != 0 or a[0] in sync:
            continue
        for b in rows:
            if b[0] == a[0] and (a[1] or b[1]) and not (a[4] and b[4]):
                racy.add(a[0])
    want = sorted(racy)
    corr = (impl == model)
    if impl != want:
        return {"fail": "C36|the-second-evaluation-disagrees-with-the-oracle", "corr": corr}
    if tag.startswith("field:") and want:
        t = _table()
        f = tag[6:]
        r = lt.racy(t).get(f)
        where = ""
        if r:
            a, b = r
            where = f"|session:{a[5]}|{['session', 'control'][b[2]]}:{b[5]}"
        return {"fail": "C36|unsynchronised-field|" + f, "corr": corr, "nontrivial": True}
    return {"nontrivial": any(r[2] == 0 for r in rows), "corr": corr}
