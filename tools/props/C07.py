"""C07 -- routing table answers XOR-closest live peers and keeps bucket shape."""
ID = "C07"
FAMILY = "bucket"
RULE = ("operation histories (register_peer / add_contact / sweep / closest_peers / clock advance / raw dump of buckets_) "
        "against the real KademliaTable under the link-time virtual clock, for a random local id: peer ids drawn from "
        "pools that share a prefix of every length 0..255 bits with the local id (so every bucket is exercised), 17..40 "
        "distinct ids aimed at one bucket (eviction at 16), the local id itself, re-registration of held ids with a new "
        "address and expiry, expiry 0 (= now) and expiries just before / at / after later clock values, targets equal to "
        "the local id, to a held id and random, limits 0, 1, 3, 16, 20, 1000. Oracle (independent of the model, python "
        "integers): on every dump -- local id absent, <= 16 per bucket, every contact in bucket bit_length(self xor id)-1, "
        "no id twice, each contact carries the newest address and expiry registered for its id, a just-registered id is the "
        "last entry of its bucket; on every closest query (preceded by a dump) -- the answer is exactly the first "
        "min(k, n) of the dump's unexpired contacts in strictly increasing XOR distance. non-trivial = history with a "
        "closest query answered by >= 2 contacts or a bucket that reached 16; distinct = distinct implementation outputs")
ASSUMPTIONS = ["clock in whole seconds; addresses are the tokens a<N>",
               "std::array<uint8_t,32> operator< is lexicographic (proved equal to comparing big-endian values: lex_ltb_be_val)"]
TRUSTED = ["extraction: ExtrOcamlBasic only", "harness/impl_bucket.cpp (#define private public around KademliaTable.hpp), "
           "link-time replacement of steady_clock::now"]
TIMEOUT = 900


def to_int(b):
    return int.from_bytes(bytes(b), "big")


def with_prefix(rng, selfid, L):
    """an id sharing exactly L leading bits with selfid (L in 0..255)"""
    s = to_int(selfid)
    r = rng.getrandbits(256)
    keep = ((1 << 256) - 1) ^ ((1 << (256 - L)) - 1)
    v = (s & keep) | (r & ((1 << (255 - L)) - 1)) | ((~s) & (1 << (255 - L)))
    return list(v.to_bytes(32, "big"))


def gen_history(rng, nops):
    selfid = [rng.randrange(256) for _ in range(32)]
    if rng.random() < 0.2:
        selfid = [rng.choice([0, 255])] * 32
    style = rng.randrange(3)
    if style == 0:
        Ls = [rng.randrange(256) for _ in range(3)]
    elif style == 1:
        Ls = [rng.choice([0, 1, 7, 8, 9, 127, 128, 247, 248, 254, 255])]
    else:
        Ls = list(range(0, 256, rng.choice([1, 5, 17])))
    pool = [with_prefix(rng, selfid, rng.choice(Ls)) for _ in range(rng.choice([3, 18, 25, 40]))]
    if Ls == [255]:
        pool = pool[:3]
    # "fill" histories: one or two buckets, 17..40 distinct long-lived ids, so that buckets reach kBucketSize and the
    # eviction order (oldest first) and the refresh-to-back order become observable
    fill = rng.random() < 0.4
    if fill:
        Ls = [rng.randrange(0, 250) for _ in range(rng.choice([1, 1, 2]))]
        pool = [with_prefix(rng, selfid, rng.choice(Ls)) for _ in range(rng.choice([17, 18, 25, 40]))]
    now = 1000
    ops = []
    addr = 0
    for _ in range(nops):
        r = rng.random()
        if r < 0.5:
            idv = rng.choice(pool) if rng.random() < 0.93 else (selfid if rng.random() < 0.5 else [rng.randrange(256) for _ in range(32)])
            addr += 1
            if fill and rng.random() < 0.9:
                ops += [[1] + idv + [addr, now + rng.choice([4000, 5000, 100000, 40 + addr])]]
            elif rng.random() < 0.6:
                e = rng.choice([0, now, now + 1, now + 2, now + 10, now + 60, now + 3000, now - 1, rng.randrange(1, now + 5000)])
                ops += [[1] + idv + [addr, e]]
            else:
                ops += [[2] + idv + [addr, rng.choice([0, -1, 1, 2, 10, 60, 3000])]]
            if rng.random() < 0.35:
                ops += [[6]]
        elif r < 0.58:
            ops += [[3]]
        elif r < 0.8:
            t = rng.choice([selfid, rng.choice(pool), [rng.randrange(256) for _ in range(32)], with_prefix(rng, selfid, rng.choice(Ls))])
            ops += [[6], [4] + t + [rng.choice([0, 1, 3, 16, 20, 1000])]]
        elif r < 0.92:
            dt = rng.choice([0, 1, 2, 9, 10, 11, 59, 60, 61, rng.randrange(3100)]) if not fill else rng.choice([0, 1, 5, 30])
            now += dt
            ops += [[5, dt]]
        else:
            ops += [[6]]
    ops += [[6]]
    return selfid, ops


def generate(rng, tier):
    n = {"quick": 200, "search": 400, "thorough": 4000}[tier]
    cases = []
    for i in range(n):
        selfid, ops = gen_history(rng, rng.choice([6, 20, 60, 150]))
        cases.append({"ints": selfid + sum(ops, []), "tag": "history"})
    return cases


def parse(ints):
    selfid = ints[:32]
    p = 32
    ops = []
    while p < len(ints):
        k = ints[p]
        if k in (1, 2):
            ops.append((k, ints[p + 1:p + 33], ints[p + 33], ints[p + 34])); p += 35
        elif k in (3, 6):
            ops.append((k,)); p += 1
        elif k == 4:
            ops.append((4, ints[p + 1:p + 33], ints[p + 33])); p += 34
        elif k == 5:
            ops.append((5, ints[p + 1])); p += 2
        else:
            break
    return selfid, ops


def read_contacts(out, p, n):
    cs = []
    for _ in range(n):
        cs.append((tuple(out[p:p + 32]), out[p + 32], out[p + 33])); p += 34
    return cs, p


def judge(case, impl, model):
    if impl and impl[0] in (-2000, -1000):
        return {"fail": f"C07|abnormal|{impl[:2]}"}
    selfid, ops = parse(case["ints"])
    s = to_int(selfid)
    now = 1000
    latest = {}          # id -> (addr, exp) of the newest registration
    last_reg = None
    dump = None          # most recent dump: list of (bucket, [contacts])
    p = 0
    nontrivial = False
    try:
        for o in ops:
            if o[0] == 1:
                e = o[3] if o[3] != 0 else now
                latest[tuple(o[1])] = (o[2], e); last_reg = tuple(o[1]); dump = None
            elif o[0] == 2:
                latest[tuple(o[1])] = (o[2], now + o[3]); last_reg = tuple(o[1]); dump = None
            elif o[0] == 3:
                dump = None; last_reg = None
            elif o[0] == 5:
                now += max(0, o[1])
            elif o[0] == 6:
                n = impl[p]; p += 1
                end = p + n
                buckets = []
                seen = set()
                while p < end:
                    idx, cnt = impl[p], impl[p + 1]
                    cs, p = read_contacts(impl, p + 2, cnt)
                    buckets.append((idx, cs))
                if p != end:
                    return {"fail": "C07|output-shape"}
                for idx, cs in buckets:
                    if len(cs) > 16:
                        return {"fail": "C07|bucket-over-16"}
                    if len(cs) == 16:
                        nontrivial = True
                    for (idb, a, e) in cs:
                        v = to_int(idb)
                        if v == s:
                            return {"fail": "C07|self-held"}
                        if (v ^ s).bit_length() - 1 != idx:
                            return {"fail": "C07|wrong-bucket"}
                        if idb in seen:
                            return {"fail": "C07|duplicate-id"}
                        seen.add(idb)
                        if latest.get(idb) != (a, e):
                            return {"fail": "C07|stale-address-or-expiry"}
                if last_reg is not None and to_int(last_reg) != s:
                    b = (to_int(last_reg) ^ s).bit_length() - 1
                    bl = [cs for idx, cs in buckets if idx == b]
                    if not bl or bl[0][-1][0] != last_reg:
                        return {"fail": "C07|registered-contact-not-newest-in-bucket"}
                dump = buckets
            elif o[0] == 4:
                cnt = impl[p]; cs, p = read_contacts(impl, p + 1, cnt)
                if dump is None:
                    continue
                t = to_int(o[1])
                livec = [c for _, b in dump for c in b if now < c[2]]
                want = sorted(livec, key=lambda c: to_int(c[0]) ^ t)[:max(0, o[2])]
                if len(cs) >= 2:
                    nontrivial = True
                ds = [to_int(c[0]) ^ t for c in cs]
                if any(ds[i] >= ds[i + 1] for i in range(len(ds) - 1)):
                    return {"fail": "C07|closest-not-strictly-increasing"}
                if len(cs) != min(max(0, o[2]), len(livec)):
                    return {"fail": "C07|closest-wrong-count"}
                if cs != want:
                    return {"fail": "C07|closest-not-the-nearest-live"}
    except IndexError:
        return {"fail": "C07|output-truncated"}
    if p != len(impl):
        return {"fail": "C07|output-shape"}
    return {"nontrivial": nontrivial}


def shrink(case):
    selfid, ops = parse(case["ints"])

    def enc(ops2):
        out = list(selfid)
        for o in ops2:
            if o[0] in (1, 2):
                out += [o[0]] + list(o[1]) + [o[2], o[3]]
            elif o[0] == 4:
                out += [4] + list(o[1]) + [o[2]]
            elif o[0] == 5:
                out += [5, o[1]]
            else:
                out += [o[0]]
        return out
    n = len(ops)
    for chunk in (n // 2, n // 4, 4, 1):
        if chunk < 1:
            continue
        for i in range(0, n, chunk):
            yield {"ints": enc(ops[:i] + ops[i + chunk:]), "tag": "shrunk"}
