"""C31 -- fetch output stays inside the chosen directory (filename sanitisers)."""
import re
import sys
from pathlib import Path

sys.path.insert(0, str(Path(__file__).resolve().parents[1]))
from ephverif import srcextract as sx  # noqa: E402
from ephverif.paths import BUILD, REPO  # noqa: E402

ID = "C31"
FAMILY = "filename"
GEN = BUILD / "gen"
HARNESS_FLAGS = ("-I", str(GEN))
RULE = ("three paths -- (1) the directory branch of `eph fetch` (the whole block from the manifest's filename to "
        "resolved_output /= name, copied verbatim from the current src/main.cpp by brace matching and compiled into the "
        "harness), (2) the real Node::store_chunk, reading the filename recorded in the manifest it returns, and (3) "
        "security::sanitize_filename_hint -- on filename strings: traversal sequences (../, ..\\, /.., ....//), every "
        "single byte 0..255 alone / as prefix / as suffix, separators and reserved characters in every position of short "
        "names, '.', '..', '...', empty, trailing slashes, names of 254..300 bytes, non-UTF-8. Also the real "
        "std::filesystem::path(dir) /= name is taken and its parent compared with dir. Oracle (independent of the model): "
        "the produced name is empty (the CLI then falls back to the chunk id / a timestamp) or has no '/', '\\\\', control "
        "or reserved byte, is not '.' or '..', is at most 255 bytes, and dir/name has parent dir. non-trivial = the raw name "
        "contained something to remove; distinct = distinct implementation outputs")
ASSUMPTIONS = ["POSIX std::filesystem::path::filename() = suffix after the last '/'; std::iscntrl in the C locale = "
               "bytes 0..31 and 127 (both exercised by the correspondence on every byte value)",
               "the fallback names (chunk id hex, chunk_<microseconds>) are hex digits / digits / '_' by construction (read, not modelled)"]
TRUSTED = ["extraction: ExtrOcamlBasic only", "tools/props/C31.py block extractor (brace matching) for the fetch branch", "harness/impl_filename.cpp"]
TIMEOUT = 600
RESERVED = b'/\\:*?"<>|'


def prebuild():
    """Copy the directory branch of `eph fetch` (the block that turns the manifest's filename into the output path) verbatim
    from the current src/main.cpp into a function the harness can call.  The store side needs no extraction: the harness
    calls the real Node::store_chunk and reads the filename recorded in the manifest it returns."""
    GEN.mkdir(parents=True, exist_ok=True)
    main = (REPO / "src/main.cpp").read_text(errors="replace")
    block = None
    for m in re.finditer(r"if\s*\(\s*treat_as_directory\s*\)\s*\{", main):
        j = main.index("{", m.start())
        e = sx.match_brace(main, j)
        body = main[m.start():e + 1]
        if "inferred_name" in body and "resolved_output" in body:
            block = body
            break
    if block is None:
        raise RuntimeError("the `if (treat_as_directory) { ... resolved_output /= inferred_name; }` block of eph fetch was not found")
    content = ("// GENERATED from the current sources of the repository by tools/props/C31.py -- not committed\n"
               "#pragma once\n#include <algorithm>\n#include <cctype>\n#include <chrono>\n#include <filesystem>\n#include <optional>\n#include <string>\n"
               "#include \"ephemeralnet/Types.hpp\"\n#include \"ephemeralnet/protocol/Manifest.hpp\"\n"
               "static std::filesystem::path gen_fetch_resolve(const std::filesystem::path& destination,\n"
               "        const std::optional<ephemeralnet::protocol::Manifest>& decoded_manifest, bool use_manifest_name) {\n"
               "    struct { bool fetch_use_manifest_name; } options{use_manifest_name};\n"
               "    const bool treat_as_directory = true;\n"
               "    std::filesystem::path resolved_output = destination;\n"
               "    " + block + "\n"
               "    return resolved_output;\n}\n")
    out = GEN / "c31_fetch.hpp"
    if not out.exists() or out.read_text() != content:
        out.write_text(content)


def lp(b):
    return [len(b)] + list(b)


def generate(rng, tier):
    n = {"quick": 300, "search": 600, "thorough": 6000}[tier]
    names = [b"", b".", b"..", b"...", b"/", b"//", b"a/", b"a/.", b"a/..", b"../../etc/passwd", b"..\\..\\x", b"....//x",
             b"/..", b"\\", b"a\\..\\b", b"C:\\x", b"x\x00y", b"\x7f", b"a\x7f\x1fb", b".\x01", b".\x7f.", b"\x01.\x02.\x03",
             b"a" * 254, b"a" * 255, b"a" * 256, b"b" * 300, b"/" + b"c" * 300, b"\xff\xfe", b"\xc3\xa9.txt", b"d/" + b"\x01" * 5,
             b".\x00.", b"..\x00", b"x" * 254 + b"\x01y", b"x" * 255 + b"/"]
    # names that only become dangerous if something decodes them after sanitising (percent escapes, C escapes, entities)
    names += [b"..%2Fescaped.txt", b"%2E%2E%2F%2E%2E%2Fx", b"%2e%2e", b"%2E", b"sub%2fdir%2fn.txt", b"a%5Cb", b"bell%07.txt",
              b"pipe%7Ccolon%3A.txt", b"nul%00.txt", b"%2F", b"..%252Fx", b"\\x2e\\x2e\\x2fx", b"&#47;etc", b"&sol;x", b"a+b%20c",
              b"%c0%af", b"%uff0f", b"..%c0%afx"]
    for b in range(256):
        names += [bytes([b]), b"ab" + bytes([b]), bytes([b]) + b"cd", b"." + bytes([b]), bytes([b]) + b"."]
    for c in RESERVED:
        for pos in range(4):
            s = bytearray(b"abc"); s.insert(pos, c)
            names.append(bytes(s))
    alphabet = list(RESERVED) + [0x2e, 0x2e, 0x2e, 0x00, 0x01, 0x1f, 0x7f, 0x20, 0x61, 0x62, 0x80, 0xff]
    for _ in range(n):
        ln = rng.choice([1, 2, 3, 4, 6, 10, 40, 260])
        names.append(bytes(rng.choice(alphabet) for _ in range(ln)))
    # names that are still too long after scrubbing, with an extension (1..40 bytes after the last dot) that carries separators,
    # reserved characters or control bytes: whatever shortens the name must not bring raw bytes back
    for stem in (250, 254, 255, 256, 300, 400):
        for ext in (b".t\x1b[2J\x07xt", b".b\\..\\c:d", b".a*b?c|d<e>", b"./x", b".\x00", b".ok", b"." + b"e" * 31, b"." + b"\\" * 33,
                    b".." , b"." + bytes(rng.choice(alphabet) for _ in range(rng.choice([2, 8, 31, 32, 33, 40])))):
            names.append(b"n" * stem + ext)
            names.append(b"dir/" + b"n" * stem + ext)
    cases = []
    for nm in names:
        for which in (1, 2, 3):
            cases.append({"ints": [which] + lp(nm), "tag": {1: "fetch", 2: "store", 3: "hint"}[which]})
    return cases


def judge(case, impl, model):
    ints = case["ints"]
    if impl and impl[0] == -2000:
        return {"fail": f"C31|crash|kind={impl[1]}"}
    if impl and impl[0] == -1000:
        return {"fail": f"C31|exception|class={impl[1]}"}
    raw = bytes(ints[2:2 + ints[1]])
    name = bytes(impl[1:1 + impl[0]])
    child_ok = impl[1 + impl[0]]
    which = ints[0]
    nontrivial = any(c < 32 or c == 127 or c in RESERVED for c in raw) or raw in (b".", b"..") or len(raw) > 255
    if name:
        bad = name in (b".", b"..") or len(name) > 255 or b"/" in name
        if which in (1, 2):
            bad = bad or any(c < 32 or c == 127 or c in RESERVED for c in name)
        if bad:
            return {"fail": f"C31|unsafe-name|{case['tag']}", "nontrivial": nontrivial}
        if child_ok != 1:
            return {"fail": f"C31|not-a-direct-child|{case['tag']}", "nontrivial": nontrivial}
    return {"nontrivial": nontrivial}


def outcome_class(case, impl):
    return "empty" if impl and impl[0] == 0 else "name"
