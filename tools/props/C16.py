"""C16 -- protocol decoding is total and memory-safe; accepted fields are verbatim."""
import os, sys
sys.path.insert(0, os.path.dirname(__file__))
import _msggen as G

ID = "C16"
FAMILY = "message"
RULE = ("mode 2/3: byte strings (random; valid encodings truncated at every length; length fields set to "
        "0, remaining+-1, 2^31, 2^32-1; boolean bytes 0..255; trailing garbage; encodings of exactly the fixed size -- every "
        "empty / non-empty combination of the variable fields -- and those one byte shorter and longer) are decoded by the real decode / "
        "decode_signed from an exact-size heap block under ASan+UBSan and by the extracted model; non-trivial = "
        "the input is at least a 2-byte header with a supported version; distinct = distinct (input class, output)")
ASSUMPTIONS = ["memory safety of the compiled decoder is observed by ASan/UBSan on the explored inputs; "
               "the proof covers the bounds logic of the model", "LP64 target (size_t = 64 bits)"]
TRUSTED = ["extraction: ExtrOcamlBasic only", "harness/impl_message.cpp, tools/props/_msggen.py", "g++ 12 ASan+UBSan"]


def mutate_lengths(rng, m, wire):
    """Overwrite one of the u32 length fields of an announce/chunk encoding."""
    w = list(wire)
    k = m["kind"]
    if k == 0:
        off = 2 + 4 * rng.choice([1, 2, 3])
    elif k == 2:
        off = 2 + 4
    else:
        return w
    remaining = len(w) - 2
    val = rng.choice([0, 1, remaining - 1, remaining, remaining + 1, 2 ** 31, 2 ** 32 - 1, 2 ** 32 - 80, rng.randrange(2 ** 32)])
    val = max(0, val)
    w[off:off + 4] = G.be(val, 4)
    return w


def generate(rng, tier):
    n = {"quick": 150, "search": 300, "thorough": 3000}[tier]
    cases = []

    def add(b, tag, signed_key=None):
        if signed_key is None:
            cases.append({"ints": [2] + G.lp(b), "tag": tag})
        else:
            cases.append({"ints": [3] + G.lp(signed_key) + G.lp(b), "tag": tag})

    # tiny inputs, every 1- and 2-byte header of interest
    add([], "tiny")
    for v in [0, 1, 2, 3, 4, 5, 255]:
        add([v], "tiny")
        for t in range(0, 9):
            add([v, t], "tiny")
    # encodings whose size is exactly the fixed part: valid, one byte short, one byte long
    for m, tag in G.minimal_messages(rng):
        wire = G.py_encode(m)
        add(wire, tag)
        add(wire[:-1], tag + "-1")
        add(wire + [0], tag + "+1")
    for i in range(n):
        m = G.rand_message(rng)
        wire = G.py_encode(m)
        r = rng.random()
        if r < 0.25:
            add(wire + G.rbytes(rng, rng.choice([0, 0, 1, 7, 32])), f"valid:k{m['kind']}")
        elif r < 0.5:
            add(mutate_lengths(rng, m, wire), f"lenfield:k{m['kind']}")
        elif r < 0.6:
            w = list(wire)
            if m["kind"] in (3, 5):
                w[2] = rng.choice([0, 1, 2, 3, 127, 128, 254, 255])
            add(w, f"boolbyte:k{m['kind']}")
        elif r < 0.75:
            w = list(wire)
            if w:
                for _ in range(rng.randrange(1, 4)):
                    w[rng.randrange(len(w))] = rng.randrange(256)
            add(w, "bitrot")
        elif r < 0.9:
            add(wire[:rng.randrange(0, len(wire) + 1)], f"trunc:k{m['kind']}")
        else:
            add(G.rbytes(rng, rng.choice([0, 1, 2, 3, 14, 15, 66, 67, 82, 83, 90, 200])), "random")
    # every truncation of one message of each type/version class
    for kind in range(6):
        for v in ([3] if tier == "quick" else [1, 2, 3, 4]):
            m = G.rand_message(rng, kind, v)
            for f in ("endpoint", "manifest", "shards", "data"):
                if f in m:
                    m[f] = m[f][:5]
            wire = G.py_encode(m)
            for cut in range(len(wire) + 1):
                add(wire[:cut], f"alltrunc:k{kind}")
    # signed decoding: short buffers, valid, corrupted
    for i in range(max(20, n // 4)):
        key = G.rbytes(rng, rng.choice([0, 1, 32, 64, 65]))
        m = G.rand_message(rng)
        wire = G.py_encode(m)
        s = wire + G.py_hmac(key, wire)
        r = rng.random()
        if r < 0.4:
            add(s, "signed-valid", key)
        elif r < 0.6:
            add(s[:rng.randrange(0, len(s))], "signed-trunc", key)
        elif r < 0.8:
            w = mutate_lengths(rng, m, wire)
            add(w + G.py_hmac(key, w), "signed-lenfield", key)
        else:
            add(G.rbytes(rng, rng.choice([0, 31, 32, 33, 34, 100])), "signed-random", key)
    return cases


def judge(case, impl, model):
    ints = case["ints"]
    if impl and impl[0] == -2000:
        return {"fail": f"C16|crash|kind={impl[1]}", "nontrivial": True}
    if impl and impl[0] == -1000:
        return {"fail": f"C16|exception|class={impl[1]}", "nontrivial": True}
    dec = G.split_decoded(impl)
    if dec is not None and dec[1] != 1:
        return {"fail": "C16|not-verbatim", "nontrivial": True}
    if ints[0] == 2:
        buf = ints[2:2 + ints[1]]
    else:
        klen = ints[1]
        buf = ints[3 + klen:]
    nontrivial = len(buf) >= 2 and 1 <= buf[0] <= 4
    return {"nontrivial": nontrivial}


def outcome_class(case, impl):
    if not impl:
        return "empty"
    return {0: "rejected", 1: "accepted", -1000: "exception", -2000: "crash"}.get(impl[0], "other")
