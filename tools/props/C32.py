"""C32 -- configuration layers apply in the documented precedence."""
import json

ID = "C32"
FAMILY = "configlayer"
RULE = ("src/main.cpp is compiled into the harness; the real load_configuration runs on JSON documents the checker writes: 1..6 "
        "profiles with random `extends` graphs (chains up to depth 5, self-reference, cycles, a parent that does not exist, a "
        "non-string `extends`, a profile that is not a mapping), optional `environments` (profile selection, direct keys or an "
        "`overrides` map), --profile / --env, and eleven settings (fetch concurrency -- one of whose spellings, node.fetch.max_parallel, has three components --, control port, transport port, control token, default / min / "
        "max TTL, announce PoW, persistence, wipe passes, key rotation) each set in a random subset of the layers (command "
        "line, environment, selected profile, each ancestor) under a randomly chosen one of its spellings (aliases), values "
        "in range and -- rarely -- out of range or of the wrong type. Oracle (independent of the model: a python reference "
        "that walks the layers from the highest precedence down): every setting equals the value of the highest layer that "
        "sets it under ANY of its spellings; cyclic, missing and malformed profiles are errors. non-trivial = at least two "
        "layers set the same setting; distinct = distinct outputs")
ASSUMPTIONS = ["the YAML / JSON text readers are outside the model: the checker writes JSON (python json.dumps) and hands the model "
               "the same tree in a structural encoding",
               "within one layer a setting is spelled one way only, and an environment uses either direct keys or `overrides` for it",
               "ten representative settings; the remaining ones go through the same get_*_any / fill-if-unset code"]
TRUSTED = ["extraction: ExtrOcamlBasic only", "harness/impl_configlayer.cpp (#include of main.cpp with main renamed)",
           "the checker's two renderings (JSON text, structural encoding) of one python dict"]
TIMEOUT = 900

TOK = {"profiles": 1, "environments": 2, "extends": 3, "announce": 10, "control": 11, "control-token": 12, "network": 13, "node": 14,
       "overrides": 15, "profile": 16, "security": 17, "storage": 18, "transport": 19, "port": 20, "control_port": 21,
       "transport_port": 22, "token": 23, "default_ttl_seconds": 25, "default_ttl": 26, "min_ttl_seconds": 27, "min_ttl": 28,
       "max_ttl_seconds": 29, "max_ttl": 30, "pow_difficulty": 31, "announce_pow_difficulty": 32, "persistent": 33,
       "enable_persistent": 34, "wipe_passes": 35, "wipe-passes": 36, "key_rotation_seconds": 37, "key_rotation_interval": 38,
       "fetch": 39, "fetch_max_parallel": 40, "max_parallel": 41, "retry_hint": 42}
# setting -> (kind, alias paths in the code's order, range)
SETTINGS = [
    ("control_port", "int", [["control", "port"], ["network", "control_port"]], (1, 65535)),
    ("transport_port", "int", [["transport", "port"], ["network", "transport_port"], ["node", "transport_port"]], (1, 65535)),
    ("token", "str", [["control", "token"], ["control-token"]], None),
    ("default_ttl", "int", [["node", "default_ttl_seconds"], ["node", "default_ttl"]], (1, None)),
    ("min_ttl", "int", [["node", "min_ttl_seconds"], ["node", "min_ttl"]], (1, None)),
    ("max_ttl", "int", [["node", "max_ttl_seconds"], ["node", "max_ttl"]], (1, None)),
    ("pow", "int", [["announce", "pow_difficulty"], ["node", "announce_pow_difficulty"]], (0, 24)),
    ("persistent", "bool", [["storage", "persistent"], ["storage", "enable_persistent"]], None),
    ("wipe_passes", "int", [["storage", "wipe_passes"], ["storage", "wipe-passes"]], (1, 255)),
    ("rotation", "int", [["node", "key_rotation_seconds"], ["node", "key_rotation_interval"], ["security", "key_rotation_seconds"],
                         ["security", "key_rotation_interval"]], (1, None)),
    # a setting with a three-component spelling: sections nested below a section must merge key by key too (the top-level
    # spelling fetch.max_parallel is not generated: the model orders an environment's direct keys by token)
    ("fetch_parallel", "int", [["node", "fetch_max_parallel"], ["node", "fetch", "max_parallel"]], (0, 65535)),
]
NAMES = ["default", "base", "prod", "lab", "edge", "x1"]
PROFILE_TOK = {n: 100 + i for i, n in enumerate(NAMES)}
ENV_NAMES = ["staging", "field"]
ENV_TOK = {n: 200 + i for i, n in enumerate(ENV_NAMES)}


def lp(b):
    b = b.encode() if isinstance(b, str) else b
    return [len(b)] + list(b)


def enc(v, keytok):
    if v is None:
        return [0]
    if isinstance(v, bool):
        return [3, 1 if v else 0]
    if isinstance(v, int):
        return [1, v]
    if isinstance(v, str):
        return [2] + lp(v)
    out = [4, len(v)]
    for k, x in v.items():
        out += [keytok(k)] + enc(x, keytok)
    return out


def put_path(tree, path, value):
    node = tree
    for k in path[:-1]:
        node = node.setdefault(k, {})
    node[path[-1]] = value


def rand_value(rng, kind, rg, bad=False):
    if kind == "int":
        if bad:
            return rng.choice([0, -1] + ([rg[1] + 1] if rg[1] is not None else []))
        top = rg[1] if rg[1] is not None else 10 ** 9 + 1          # the TTLs and the rotation interval have no upper bound
        return rng.choice([rg[0], top, rng.randrange(rg[0], min(top, 70000) + 1)])
    if kind == "str":
        return rng.choice(["s3cret", "tok-" + str(rng.randrange(1000)), ""])
    return rng.random() < 0.5


def generate(rng, tier):
    n = {"quick": 300, "search": 500, "thorough": 4000}[tier]
    cases = []
    for ci in range(n):
        k = rng.randrange(1, 7)
        names = rng.sample(NAMES, k)
        if rng.random() < 0.8 and "default" not in names:
            names[0] = "default"
        profiles = {}
        layer_sets = {}          # profile name -> {setting: (alias index, value)}
        for nm in names:
            body = {}
            r = rng.random()
            if r < 0.55 and k > 1:
                body["extends"] = rng.choice(names + (["ghost"] if rng.random() < 0.1 else []))
            elif r < 0.58:
                body["extends"] = 7
            sets = {}
            for si, (sname, kind, aliases, rg) in enumerate(SETTINGS):
                if rng.random() < 0.3:
                    ai = rng.randrange(len(aliases))
                    val = rand_value(rng, kind, rg, bad=rng.random() < 0.03)
                    if rng.random() < 0.01:
                        val = "oops" if kind != "str" else 5
                    put_path(body, aliases[ai], val)
                    sets[sname] = (ai, val)
            if rng.random() < 0.3:
                put_path(body, ["node", "fetch", "retry_hint"], 2)   # touches the nested section without setting anything in it
            profiles[nm] = body
            layer_sets[nm] = sets
        if rng.random() < 0.03:
            profiles[rng.choice(names)] = 5                     # a profile that is not a mapping
        doc = {"profiles": profiles}
        env_flag = None
        env_sets = {}
        env_profile = None
        if rng.random() < 0.5:
            envs = {}
            for en in ENV_NAMES[:rng.randrange(1, 3)]:
                body = {}
                if rng.random() < 0.5:
                    body["profile"] = rng.choice(names + (["ghost"] if rng.random() < 0.05 else []))
                sets = {}
                use_overrides = rng.random() < 0.5
                target = body.setdefault("overrides", {}) if use_overrides else body
                for sname, kind, aliases, rg in SETTINGS:
                    if rng.random() < 0.25:
                        ai = rng.randrange(len(aliases))
                        val = rand_value(rng, kind, rg)
                        put_path(target, aliases[ai], val)
                        sets[sname] = (ai, val)
                if rng.random() < 0.3:
                    put_path(target, ["node", "fetch", "retry_hint"], 2)
                envs[en] = (body, sets)
            doc["environments"] = {en: b for en, (b, _) in envs.items()}
            if rng.random() < 0.8:
                env_flag = rng.choice(list(envs) + (["nowhere"] if rng.random() < 0.05 else []))
                if env_flag in envs:
                    env_sets = envs[env_flag][1]
                    env_profile = envs[env_flag][0].get("profile")
        elif rng.random() < 0.05:
            env_flag = "staging"                                 # --env without an environments section
        profile_flag = rng.choice(names + ["ghost"]) if rng.random() < 0.3 else None
        flags = {}
        for sname, kind, aliases, rg in SETTINGS:
            if rng.random() < 0.2:
                flags[sname] = rand_value(rng, kind, rg)

        def keytok(key):
            if key in TOK:
                return TOK[key]
            if key in PROFILE_TOK:
                return PROFILE_TOK[key]
            if key in ENV_TOK:
                return ENV_TOK[key]
            return 999
        # profile names and environment names share the token space with keys only inside their own maps
        def enc_doc(d):
            out = [4, len(d)]
            for key, v in d.items():
                out += [TOK[key]]
                if key == "profiles":
                    out += [4, len(v)]
                    for pn, body in v.items():
                        out += [PROFILE_TOK[pn]] + enc(body, keytok)
                elif key == "environments":
                    out += [4, len(v)]
                    for en, body in v.items():
                        out += [ENV_TOK[en]] + enc(body, keytok)
            return out
        structural = enc_doc(doc)
        ints = [len(structural)] + structural
        ints += [len(profiles)]
        for pn in profiles:
            ints += lp(pn) + [PROFILE_TOK[pn]]
        envmap = doc.get("environments", {})
        ints += [len(envmap)]
        for en in envmap:
            ints += lp(en) + [ENV_TOK[en]]
        ints += ([1] + lp(profile_flag)) if profile_flag else [0]
        ints += ([1] + lp(env_flag)) if env_flag else [0]
        for sname, kind, aliases, rg in SETTINGS:
            if sname in flags:
                v = flags[sname]
                ints += ([1] + lp(v)) if kind == "str" else [1, int(v)]
            else:
                ints += [0]
        ints += lp(json.dumps(doc))
        cases.append({"ints": ints, "tag": "layers"})
    return cases


def meta_from_ints(ints):
    p = 0
    skip = ints[p]; p += 1 + skip

    def rd_bytes():
        nonlocal p
        ln = ints[p]; b = bytes(ints[p + 1:p + 1 + ln]); p += 1 + ln
        return b
    for _ in range(2):
        cnt = ints[p]; p += 1
        for _ in range(cnt):
            rd_bytes(); p += 1

    def rd_opt_str():
        nonlocal p
        f = ints[p]; p += 1
        return rd_bytes().decode() if f else None
    pf = rd_opt_str(); ef = rd_opt_str()
    flags = {}
    for sname, kind, aliases, rg in SETTINGS:
        f = ints[p]; p += 1
        if f:
            if kind == "str":
                flags[sname] = rd_bytes().decode()
            elif kind == "bool":
                flags[sname] = bool(ints[p]); p += 1
            else:
                flags[sname] = ints[p]; p += 1
    doc = json.loads(rd_bytes().decode())
    return {"doc": doc, "profile_flag": pf, "env_flag": ef, "flags": flags}


def layers_of(meta):
    """('err', None) or ('ok', [environment layer, selected profile, its parent, ...]) -- the highest precedence first"""
    doc, pf, ef = meta["doc"], meta["profile_flag"], meta["env_flag"]
    profiles = doc["profiles"]
    selected = pf or "default"
    env_layer = {}
    if ef is not None:
        envs = doc.get("environments")
        if not isinstance(envs, dict) or ef not in envs or not isinstance(envs[ef], dict):
            return ("err", None)
        body = envs[ef]
        if pf is None and "profile" in body:
            if not isinstance(body["profile"], str):
                return ("err", None)
            selected = body["profile"]
        env_layer = {k: v for k, v in body.items() if k not in ("profile", "overrides")}
        if isinstance(body.get("overrides"), dict):
            env_layer = json.loads(json.dumps(env_layer))
            deep(env_layer, body["overrides"])
    chain = []
    seen = set()
    cur = selected
    while True:
        if cur not in profiles or not isinstance(profiles[cur], dict) or cur in seen:
            return ("err", None)
        seen.add(cur)
        chain.append({k: v for k, v in profiles[cur].items() if k != "extends"})
        if "extends" not in profiles[cur]:
            break
        if not isinstance(profiles[cur]["extends"], str):
            return ("err", None)
        cur = profiles[cur]["extends"]
    return ("ok", [env_layer] + chain)


def deep(a, b):
    for k, v in b.items():
        if isinstance(v, dict) and isinstance(a.get(k), dict):
            deep(a[k], v)
        else:
            a[k] = json.loads(json.dumps(v))


def lookup(layer, aliases):
    """(found, value, alias index) of the first alias path present in one layer"""
    for ai, path in enumerate(aliases):
        node = layer
        ok = True
        for k in path:
            if isinstance(node, dict) and k in node:
                node = node[k]
            else:
                ok = False
                break
        if ok:
            return (True, node, ai)
    return (False, None, None)


def well_typed(kind, rg, val):
    return (kind == "int" and isinstance(val, int) and not isinstance(val, bool) and rg[0] <= val and (rg[1] is None or val <= rg[1])) or \
           (kind == "str" and isinstance(val, str)) or (kind == "bool" and isinstance(val, bool))


def settings_from(meta, layers):
    """each setting from the first of `layers` that sets it (under any of its spellings); flags first"""
    flags = meta["flags"]
    out = {}
    for sname, kind, aliases, rg in SETTINGS:
        if sname in flags:
            out[sname] = flags[sname]
            continue
        val = None
        for layer in layers:
            found, v, _ = lookup(layer, aliases)
            if found:
                val = v
                break
        if val is not None and not well_typed(kind, rg, val):
            return ("err", None)
        out[sname] = val
    return ("ok", out)


def reference(meta):
    """('err', None) or ('ok', {setting: value or None}) by walking the layers from the highest precedence down"""
    kind, layers = layers_of(meta)
    if kind == "err":
        return ("err", None)
    return settings_from(meta, layers)


def mixed_spellings(meta):
    """the settings that two layers of this configuration set under two different spellings, together with what a loader
       that first folds all layers into ONE tree and only then looks the spellings up (in their fixed order) returns: the open
       finding recorded in known_findings.json"""
    kind, layers = layers_of(meta)
    if kind == "err":
        return set(), None
    mixed = set()
    for sname, skind, aliases, rg in SETTINGS:
        used = set()
        for layer in layers:
            for ai, path in enumerate(aliases):
                if lookup(layer, [path])[0]:
                    used.add(ai)
        if len(used) >= 2:
            mixed.add(sname)
    folded = {}
    for layer in reversed(layers):
        deep(folded, layer)
    return mixed, settings_from(meta, [folded])


KNOWN = "C32|lower-layer-wins-under-an-earlier-spelling"


def judge(case, impl, model):
    if impl and impl[0] in (-2000, -1000):
        return {"fail": f"C32|abnormal|{impl[:2]}"}
    meta = meta_from_ints(case["ints"])
    kind, want = reference(meta)
    mixed, folded = mixed_spellings(meta)
    if impl[0] == 1:
        if kind == "ok":
            # an error where the winning layers are all well-formed: a lower layer's bad value or type must not matter
            if mixed and folded == ("err", None):
                return {"fail": KNOWN, "nontrivial": True}
            return {"fail": "C32|error-although-every-winning-layer-is-well-formed", "nontrivial": True}
        return {"nontrivial": False}
    q = 1
    got = {}
    for sname, skind, aliases, rg in SETTINGS:
        if impl[q] == 0:
            got[sname] = None; q += 1
        elif skind == "str":
            ln = impl[q + 1]; got[sname] = bytes(impl[q + 2:q + 2 + ln]).decode(); q += 2 + ln
        elif skind == "bool":
            got[sname] = bool(impl[q + 1]); q += 2
        else:
            got[sname] = impl[q + 1]; q += 2
    if kind == "err":
        if mixed and folded is not None and folded[0] == "ok" and folded[1] == got:
            return {"fail": KNOWN, "nontrivial": True}
        return {"fail": "C32|malformed-or-cyclic-configuration-accepted", "nontrivial": True}
    wrong = [sname for sname, _, _, _ in SETTINGS if got[sname] != want[sname]]
    if not wrong:
        return {"nontrivial": True}
    # the open finding: every wrong setting is one two layers spell differently, and the value is the folded tree's
    if folded is not None and folded[0] == "ok" and all(sn in mixed and got[sn] == folded[1][sn] for sn in wrong):
        return {"fail": KNOWN, "nontrivial": True}
    other = [sn for sn in wrong if not (sn in mixed and folded is not None and folded[0] == "ok" and got[sn] == folded[1][sn])]
    return {"fail": f"C32|setting-not-from-the-highest-layer-that-sets-it|{other[0]}", "nontrivial": True}
