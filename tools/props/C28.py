"""C28 -- STORE admission enforces size, TTL, PoW and an unforgeable rate limit."""
ID = "C28"
FAMILY = "control"
RULE = ("mode 4: timed sequences of 10..60 well-formed STORE and streamed FETCH requests against the real handler (real Node, "
        "virtual clock) from 1..2 client addresses, each request carrying no TOKEN header or a fresh / repeated / empty "
        "one, gaps 0, 1, 5, 29, 30, 31 s; daemon token absent (the case the property is about) or configured. Oracle "
        "(independent of the model, python sliding window): with no configured token a client address gets a STORE accepted "
        "iff fewer than 6 of its STOREs were accepted in the last 30 s (12 for streamed FETCH), whatever TOKEN it sends. "
        "Admission of size / TTL / PoW: the payload cap is enforced by parse_request before the body is read, the TTL window "
        "is C02's gate theorem and harness mode, the PoW validator is C19's. non-trivial = a sequence with a refused request; "
        "distinct = distinct outputs")
ASSUMPTIONS = ["the TTL window and the store PoW predicate are decided by C02 and C19 (same code paths, their own checks)",
               "clock in whole seconds"]
TRUSTED = ["extraction: ExtrOcamlBasic only", "harness/impl_control.cpp"]
TIMEOUT = 900


def lp(b):
    return [len(b)] + list(b)


def opt(b):
    return [0] if b is None else [1] + lp(b)


def generate(rng, tier):
    n = {"quick": 60, "search": 120, "thorough": 1000}[tier]
    cases = []
    # the historical bypass: a fresh TOKEN value on every request
    ev = []
    for i in range(10):
        ev += [0, 0, 1] + opt(b"t%d" % i)
    cases.append({"ints": [4, 0] + ev, "tag": "token-rotation"})
    for _ in range(n):
        conf = None if rng.random() < 0.8 else b"secret"
        ev = []
        for i in range(rng.choice([10, 25, 60])):
            dt = rng.choice([0, 0, 0, 1, 5, 29, 30, 31])
            kind = 0 if rng.random() < 0.6 else 1
            remote = rng.choice([1, 1, 2])
            tok = rng.choice([None, b"", b"a", b"b", b"t%d" % i, b"secret"])
            ev += [dt, kind, remote] + opt(tok)
        cases.append({"ints": [4] + opt(conf) + ev, "tag": "sequence"})
    return cases


def judge(case, impl, model):
    ints = case["ints"]
    if impl and impl[0] in (-2000, -1000):
        return {"fail": f"C28|abnormal|{impl[:2]}"}
    p = 1
    def ropt():
        nonlocal p
        if ints[p] == 0:
            p += 1; return None
        n = ints[p + 1]; b = bytes(ints[p + 2:p + 2 + n]); p += 2 + n; return b
    conf = ropt()
    now = 1000
    acc = {}
    i = 0
    refused = False
    while p < len(ints):
        dt, kind, remote = ints[p:p + 3]; p += 3
        tok = ropt()
        now += max(0, dt)
        if i >= len(impl):
            return {"fail": "C28|output-shape"}
        got = impl[i]; i += 1
        if got == -9:
            return {"fail": "C28|well-formed-request-failed-otherwise"}
        key = (kind, remote if conf is None else "token")
        h = [t for t in acc.get(key, []) if now - t <= 30]
        limit = 6 if kind == 0 else 12
        want = 1 if len(h) < limit else 0
        if got != want:
            if got == 1:
                return {"fail": "C28|rate-limit-exceeded|" + ("store" if kind == 0 else "fetch")}
            return {"fail": "C28|refused-below-the-limit|" + ("store" if kind == 0 else "fetch")}
        if got:
            h.append(now)
        else:
            refused = True
        acc[key] = h
    return {"nontrivial": refused}
