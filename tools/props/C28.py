"""C28 -- STORE admission enforces size, TTL, PoW and an unforgeable rate limit."""
ID = "C28"
FAMILY = "control"
RULE = ("mode 4: timed sequences of 10..60 well-formed STORE and streamed FETCH requests against the real handler (real Node, "
        "virtual clock) from 1..2 client addresses, each request carrying no TOKEN header or a fresh / repeated / empty "
        "one, gaps 0, 1, 5, 29, 30, 31 s; daemon token absent (the case the property is about) or configured. Oracle "
        "(independent of the model, python sliding window): with no configured token a client address gets a STORE accepted "
        "iff fewer than 6 of its STOREs were accepted in the last 30 s (12 for streamed FETCH), whatever TOKEN it sends. "
        "mode 7: the same sequences with store proof-of-work on (difficulty 1/4/6/8): valid STOREs, STOREs with a wrong nonce or without one and streamed FETCHes mixed (alternating wrong / valid; random; mostly FETCH) -- every STORE-path request takes a slot, and proof-of-work failures or successes must not change what the limiter remembers. "
        "mode 6: one STORE against a fresh daemon (real parse_request + handle_store) with store PoW difficulty 0/4/9/12/15/17, "
        "TTL window [30|60, 3600|21600], payload cap 16/64/1024: declared length at, below and above the cap (also 2^40, 2^64, "
        "malformed, absent, larger than the body sent, with little or no body sent), TTL at and one outside either bound, "
        "malformed, 2^63, 2^64-1; nonces found by a python search with exactly the required zero bits, up to three bits "
        "short, with all whole zero bytes but not the remaining bits, for another payload or another file name, missing, "
        "malformed; PATH absent, plain, with directories, '..'. Oracle: python hashlib over the documented preimage, accepted "
        "iff every check passes, and stored iff accepted. non-trivial = a sequence with a refused request; "
        "distinct = distinct outputs")
ASSUMPTIONS = ["the TTL window and the store PoW predicate are decided by C02 and C19 (same code paths, their own checks)",
               "clock in whole seconds"]
TRUSTED = ["extraction: ExtrOcamlBasic only", "harness/impl_control.cpp"]
TIMEOUT = 2400


def lp(b):
    return [len(b)] + list(b)


def opt(b):
    return [0] if b is None else [1] + lp(b)


import hashlib
import re


def zero_bits(dg):
    n = 0
    for b in dg:
        if b == 0:
            n += 8
            continue
        n += 8 - b.bit_length()
        break
    return n


def store_digest(payload, fname, nonce):
    return hashlib.sha256(hashlib.sha256(payload).digest() + len(payload).to_bytes(8, "big") + len(fname).to_bytes(4, "big")
                          + fname + nonce.to_bytes(8, "big")).digest()


def find_nonce(payload, fname, lo, hi, start):
    """a nonce whose digest has between lo and hi leading zero bits"""
    n = start
    while True:
        z = zero_bits(store_digest(payload, fname, n))
        if lo <= z <= hi:
            return n
        n += 1


def basename(p):
    b = p.rsplit(b"/", 1)[-1]
    return b"" if (not p or b in (b"", b".", b"..")) else b[:255]


def admission_cases(rng, n):
    cases = []
    def mk(d, mn, mx, df, cap, declared, body, ttl, path, pow_, tag):
        cases.append({"ints": [6, d, mn, mx, df, cap] + opt(declared) + lp(body) + opt(ttl) + opt(path) + opt(pow_), "tag": tag})
    for _ in range(n):
        d = rng.choice([0, 0, 4, 9, 9, 12, 12, 15, 17])
        mn, mx, df, cap = rng.choice([30, 60]), rng.choice([3600, 21600]), 600, rng.choice([16, 64, 1024])
        size = rng.choice([1, 2, cap - 1, cap, rng.randrange(1, cap + 1)])
        body = bytes(rng.randrange(256) for _ in range(size))
        path = rng.choice([None, None, b"a.txt", b"dir/sub/file.bin", b"x/..", b"weird name.tar.gz", b"/abs/p"])
        fname = basename(path) if path else b""
        kind = rng.choice(["ok", "ok", "size", "ttl", "pow", "pow", "pow"])
        declared = str(size).encode()
        ttl = rng.choice([None, str(mn).encode(), str(mx).encode(), b"600"])
        pow_ = None
        cap_d = min(d, 24)
        if d > 0:
            pow_ = str(find_nonce(body, fname, cap_d, 256, rng.randrange(1 << 20))).encode()
        if kind == "size":
            declared = rng.choice([str(cap + 1).encode(), str(cap + 1).encode(), str(2 ** 40).encode(), str(2 ** 64).encode(), b"18446744073709551615",
                                   b"", b"-1", b"+3", b" 3", b"3 ", b"0x10", b"1e3", str(size + 1).encode(), None, b"007"])
            if declared in (b"007",):
                body = body[:7].ljust(7, b"z") if cap >= 7 else body
                if d > 0:
                    pow_ = str(find_nonce(body[:7], fname, cap_d, 256, 5)).encode()
            if declared and re.fullmatch(rb"[0-9]+", declared) and int(declared) > cap:
                body = body[:rng.choice([0, 1, len(body)])]      # nothing (or little) of the announced body is ever sent
        elif kind == "ttl":
            ttl = rng.choice([str(mn - 1).encode(), str(mx + 1).encode(), b"0", b"", b"abc", b"-5", b"60s", b"1.5", str(2 ** 63).encode(),
                              str(2 ** 64 - 1).encode(), str(2 ** 64).encode(), b"99999999999999999999999"])
        elif kind == "pow" and d > 0:
            how = rng.choice(["near", "near", "near8", "missing", "garbage", "other-payload", "other-name", "exact"])
            if how == "near":
                pow_ = str(find_nonce(body, fname, max(0, cap_d - 3), cap_d - 1, rng.randrange(1 << 20))).encode()
            elif how == "near8":   # at least the whole zero bytes of the difficulty, but not the remaining bits
                lo = 8 * (cap_d // 8)
                pow_ = str(find_nonce(body, fname, lo, cap_d - 1, rng.randrange(1 << 20))).encode() if lo < cap_d else pow_
            elif how == "missing":
                pow_ = None
            elif how == "garbage":
                pow_ = rng.choice([b"", b"abc", b"-1", b"12x", str(2 ** 64).encode()])
            elif how == "other-payload":
                other = bytes([body[0] ^ 1]) + body[1:]
                pow_ = str(find_nonce(other, fname, cap_d, 256, 7)).encode()
            elif how == "other-name":
                pow_ = str(find_nonce(body, fname + b"2", cap_d, 256, 7)).encode()
            else:
                pow_ = str(find_nonce(body, fname, cap_d, cap_d, rng.randrange(1 << 20))).encode()
        mk(d, mn, mx, df, cap, declared, body, ttl, path, pow_, "admission-" + kind)
    return cases


def generate(rng, tier):
    n = {"quick": 60, "search": 120, "thorough": 1000}[tier]
    cases = []
    cases += admission_cases(rng, {"quick": 140, "search": 250, "thorough": 1500}[tier])
    # the historical bypass: a fresh TOKEN value on every request
    ev = []
    for i in range(10):
        ev += [0, 0, 1] + opt(b"t%d" % i)
    cases.append({"ints": [4, 0] + ev, "tag": "token-rotation"})
    for _ in range(n):
        conf = None if rng.random() < 0.8 else b"secret"
        ev = []
        for i in range(rng.choice([10, 25, 60])):
            dt = rng.choice([0, 0, 0, 1, 5, 29, 30, 31])
            kind = 0 if rng.random() < 0.6 else 1
            remote = rng.choice([1, 1, 2])
            tok = rng.choice([None, b"", b"a", b"b", b"t%d" % i, b"secret"])
            ev += [dt, kind, remote] + opt(tok)
        cases.append({"ints": [4] + opt(conf) + ev, "tag": "sequence"})
    # the same with store proof-of-work on: valid STOREs (kind 0), STOREs with a wrong nonce (2) or without one (3) and streamed
    # FETCHes mixed in bursts; every STORE-path request takes a limiter slot whether or not its proof of work is good, and a
    # failed or accepted proof of work must not change what the limiter remembers
    for j in range(min(n, 400)):
        d = rng.choice([1, 4, 6, 8])
        good = find_nonce(b"xyz", b"", d, 256, rng.randrange(1000))
        bad = find_nonce(b"xyz", b"", 0, d - 1, rng.randrange(1000))
        conf = None if rng.random() < 0.85 else b"secret"
        ev = []
        style = j % 3
        for i in range(rng.choice([12, 25, 40])):
            dt = rng.choice([0, 0, 0, 0, 1, 5, 29, 30, 31])
            if style == 0:
                kind = [2, 0][i % 2]                         # wrong nonce, valid nonce, wrong nonce, ...
            elif style == 1:
                kind = rng.choice([0, 0, 2, 3, 1])
            else:
                kind = rng.choice([1, 1, 1, 2, 0])           # mostly streamed FETCHes, now and then a failure followed by a valid STORE
            remote = rng.choice([1, 1, 1, 2])
            ev += [dt, kind, remote] + opt(rng.choice([None, None, b"a", b"t%d" % i]))
        cases.append({"ints": [7, d, good, bad] + opt(conf) + ev, "tag": "sequence-pow"})
    return cases


def judge_admission(ints, impl):
    d, mn, mx, df, cap = ints[1:6]
    p = 6
    def ropt():
        nonlocal p
        if ints[p] == 0:
            p += 1; return None
        n = ints[p + 1]; b = bytes(ints[p + 2:p + 2 + n]); p += 2 + n; return b
    declared = ropt()
    n = ints[p]; body = bytes(ints[p + 1:p + 1 + n]); p += 1 + n
    ttl = ropt(); path = ropt(); pow_ = ropt()
    if len(impl) != 2:
        return {"fail": "C28|output-shape"}
    code, stored = impl
    def u64(b):
        if b is None or not re.fullmatch(rb"[0-9]+", b) or int(b) >= 2 ** 64:
            return None
        return int(b)
    reasons = []
    size = u64(declared)
    if size is None:
        reasons.append("length-missing-or-malformed")
    elif size > cap:
        reasons.append("over-the-cap")
    elif size > len(body):
        reasons.append("body-shorter-than-declared")
    else:
        payload = body[:size]
        t = df
        if ttl is not None:
            t = u64(ttl)
            if t is not None and t >= 2 ** 63:
                t -= 2 ** 64
        if t is None or not (mn <= t <= mx):
            reasons.append("ttl-outside-window")
        if d > 0:
            nonce = u64(pow_)
            fname = basename(path) if path else b""
            if nonce is None or zero_bits(store_digest(payload, fname, nonce)) < min(d, 24):
                reasons.append("pow-invalid")
    accepted = code == 0
    res = {"nontrivial": bool(reasons) or d > 0}
    if accepted and reasons:
        res["fail"] = "C28|store-accepted-despite-" + reasons[0]
    elif accepted and stored != 1:
        res["fail"] = "C28|accepted-store-not-stored"
    elif not accepted and not reasons:
        res["fail"] = "C28|admissible-store-refused"
    elif not accepted and stored != 0:
        res["fail"] = "C28|refused-store-was-stored"
    return res


def judge(case, impl, model):
    ints = case["ints"]
    if impl and impl[0] in (-2000, -1000):
        return {"fail": f"C28|abnormal|{impl[:2]}"}
    if ints[0] == 6:
        return judge_admission(ints, impl)
    p = 1 if ints[0] == 4 else 4
    powd = 0 if ints[0] == 4 else ints[1]
    def ropt():
        nonlocal p
        if ints[p] == 0:
            p += 1; return None
        n = ints[p + 1]; b = bytes(ints[p + 2:p + 2 + n]); p += 2 + n; return b
    conf = ropt()
    now = 1000
    acc = {}
    i = 0
    refused = False
    while p < len(ints):
        dt, kind, remote = ints[p:p + 3]; p += 3
        tok = ropt()
        now += max(0, dt)
        if i >= len(impl):
            return {"fail": "C28|output-shape"}
        got = impl[i]; i += 1
        if got == -9:
            return {"fail": "C28|well-formed-request-failed-otherwise"}
        path = 1 if kind == 1 else 0            # kinds 0, 2, 3 are STOREs (valid, wrong or missing proof of work)
        key = (path, remote if conf is None else "token")
        h = [t for t in acc.get(key, []) if now - t <= 30]
        limit = 6 if path == 0 else 12
        want = 0 if len(h) >= limit else (2 if (kind in (2, 3) and powd > 0) else 1)
        kind = path
        if got != want:
            if got in (1, 2) and want == 0:
                return {"fail": "C28|rate-limit-exceeded|" + ("store" if kind == 0 else "fetch")}
            if got == 1 and want == 2:
                return {"fail": "C28|store-accepted-without-valid-pow"}
            if got == 2 and want == 1:
                return {"fail": "C28|valid-pow-refused"}
            return {"fail": "C28|refused-below-the-limit|" + ("store" if kind == 0 else "fetch")}
        if got:
            h.append(now)
        else:
            refused = True
        acc[key] = h
    return {"nontrivial": refused}
