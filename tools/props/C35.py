"""C35 -- no remote input can crash the node or the daemon."""
import importlib.util
from pathlib import Path

ID = "C35"
FAMILY = "remote"


def _load(name):
    spec = importlib.util.spec_from_file_location(name + "_for_c35", Path(__file__).with_name(name + ".py"))
    mod = importlib.util.module_from_spec(spec)
    spec.loader.exec_module(mod)
    return mod


_c11 = _load("C11")
RULE = ("AddressSanitizer + UBSan build.  Transport: a real Node B with live sessions and reader threads; a hostile peer A with a "
        "valid session sends a signed ANNOUNCE carrying a manifest -- genuine, or with a hash / nonce / share byte flipped, the "
        "threshold set to 0, t-1, t+1, the share count, 255, a share index repeated inside or beyond the threshold, for shard "
        "configurations (1,1) (1,3) (2,3) (3,5) (5,5) (2,255) (16,32) -- and then a signed CHUNK with the replica bytes "
        "(genuine, flipped, cut, extended); B's ACK is read.  Then 0..6 hostile actions: raw bytes written into A's session "
        "(frame headers announcing 0, 1, 2^20, 2^20+1, 2^32-1 bytes, truncated frames, random bytes), well-formed signed ANNOUNCEs that assign a shard and carry a hostile endpoint text (ports beyond every integer type, signs, blanks, none; the node ticks afterwards), well-formed frames "
        "whose plaintext is random, a truncated or bit-flipped signed message, or a signed message of every type with hostile "
        "fields, length-field sweeps over a valid ANNOUNCE / CHUNK / REQUEST (at every offset of the encoding one, two or three "
        "consecutive 32-bit words whose sum wraps around to a small number, the rest of the message kept or cut there; signed, or sent "
        "where the transport handshake is expected), and TCP connections to B's transport port that send random bytes, a huge length prefix or nothing "
        "before the handshake.  After each, an honest peer C with its own session asks B for a chunk B holds and must get it. "
        "Control plane: the real ControlServer::Impl::handle_client on the node that holds the chunk: FETCH with MANIFEST "
        "absent / genuine / corrupted / undecodable, OUT absent / empty / a file / a path below a regular file, STREAM on / "
        "off, and raw request bytes (no blank line, 20000-byte lines, NUL bytes, only colons); the response code is read and "
        "a PING must still be answered; and peers / control clients that send a request and hang up before the answer (the "
        "harness installs the daemon's own signal dispositions, `install_termination_handlers` of src/main.cpp).  Oracle: the process ends normally with no sanitizer report (an exception on a "
        "session thread, std::terminate, a crash or a hang end it abnormally), every probe is served, no exception leaves "
        "handle_client, every PING is answered. non-trivial = a corrupted manifest, a hostile action or a hostile request; "
        "distinct = distinct outputs")
ASSUMPTIONS = ["memory safety, undefined behaviour and liveness are statements about the C++ and its runtime: they are checked on the "
               "sanitizer build under the hostile inputs generated here, not proved; what is proved is that the modelled handlers "
               "reach no throwing operation with arguments it refuses",
               "the manifest / message codecs are total on all byte strings (C15, C16, C17, C18: proved on their models, tied by their "
               "own correspondence checks)",
               "announce admission (PoW difficulty 0, burst limit 1000) is C21's; the TTL window is C03's"]
TRUSTED = ["extraction: ExtrOcamlBasic only", "harness/impl_remote.cpp (own NodeTestAccess friend, #include of ControlServer.cpp with "
           "private opened, link-time std::random_device)", "AddressSanitizer / UBSan (g++ 12) as the memory-error oracle"]
TIMEOUT = 1800
lp = _c11.lp


def store_prefix(rng, favour_shards):
    shapes = [(1, 1), (1, 3), (2, 3), (3, 5), (5, 5), (2, 255), (16, 32)]
    t, tot = rng.choice(shapes)
    size = rng.choice([1, 5, 64, 200, rng.randrange(1, 400)])
    data = bytes(rng.randrange(256) for _ in range(size))
    cid = [rng.randrange(256) for _ in range(32)]
    key = [rng.randrange(256) for _ in range(32)]
    seed = rng.randrange(2 ** 32)
    te = max(1, t); ne = max(te, tot)
    rnd = [rng.randrange(256) for _ in range(32 * (te - 1))]
    r = rng.random()
    if r < 0.15:
        kind, pos, val = 0, 0, 0
    else:
        kind = rng.choice([5, 5, 6, 6, 6, 4, 2, 3, 1, 7, 8] if favour_shards else [1, 2, 3, 4, 5, 6, 7, 8])
        val = rng.choice([1, 2, 0x80, 0xFF, rng.randrange(1, 256)])
        pos = 0
        if kind == 1:
            pos = rng.randrange(max(1, size))
        elif kind == 2:
            pos = rng.randrange(32)
        elif kind == 3:
            pos = rng.randrange(12)
        elif kind == 4:
            pos = rng.randrange(32 * ne)
        elif kind == 5:
            val = rng.choice([0, te - 1, te + 1, ne, min(255, ne + 1), 255])
        elif kind == 6:
            # a repeated index: mostly inside the threshold (the shares reconstruction uses), sometimes beyond it
            pos = rng.randrange(te) if rng.random() < 0.7 else rng.randrange(ne)
            val = rng.randrange(te) if rng.random() < 0.7 else rng.randrange(ne)
        elif kind == 7:
            pos = rng.choice([0, max(0, size - 1), size // 2])
        elif kind == 8:
            val = rng.choice([1, 64])
    return cid + [t, tot] + lp(data) + key + list(_c11.nonce_from_seed(seed)) + lp(rnd) + [kind, pos, val, seed], kind


ENDPOINTS = [b"127.0.0.1:18446744073709551616", b"127.0.0.1:99999999999999999999999999999999999999", b"127.0.0.1:4294967296",
             b"127.0.0.1:65536", b"127.0.0.1:0", b"127.0.0.1:", b"127.0.0.1", b":", b"", b"127.0.0.1:-1", b"127.0.0.1:+5", b"127.0.0.1: 80",
             b"127.0.0.1:80abc", b"127.0.0.1:0x50", b"[::1]:99999999999999999999", b":18446744073709551616", b"127.0.0.1:9" + b"9" * 300,
             b"127.0.0.1:1"]


def hostile_action(rng):
    r = rng.random()
    if r < 0.15:
        # a well-formed, signed ANNOUNCE that assigns a shard, with a hostile endpoint text (the node parses it later)
        return [6] + lp(rng.choice(ENDPOINTS))
    r = (r - 0.15) / 0.85
    if r < 0.12:
        return [5] + lp(b"")          # a peer asks for the chunk and hangs up before the answer
    if r < 0.25:
        # a length-field sweep over a valid ANNOUNCE / CHUNK / REQUEST: 1..3 consecutive 32-bit words whose sum wraps around to the
        # size of what follows, at every offset; signed (3) or sent before the handshake (4)
        return [rng.choice([3, 3, 4])] + lp(bytes([rng.randrange(3), rng.randrange(3), rng.randrange(8), rng.randrange(2)]))
    r = (r - 0.25) / 0.75
    if r < 0.4:
        # raw bytes into the session: nonce (12) + length (4, big endian) + some bytes
        ln = rng.choice([0, 1, 16, 1 << 20, (1 << 20) + 1, 0x7FFFFFFF, 0xFFFFFFFF, rng.randrange(1 << 32)])
        body = bytes(rng.randrange(256) for _ in range(rng.choice([0, 1, 16, 64, 300])))
        raw = bytes(rng.randrange(256) for _ in range(12)) + ln.to_bytes(4, "big") + body
        if rng.random() < 0.2:
            raw = raw[:rng.randrange(1, 16)]
        return [0] + lp(raw)
    if r < 0.75:
        # a well-formed frame whose plaintext is hostile: random, or shaped like a message header
        kind = rng.random()
        if kind < 0.5:
            body = bytes(rng.randrange(256) for _ in range(rng.choice([0, 1, 8, 33, 64, 200, 5000])))
        else:
            body = bytes([rng.choice([1, 2, 3, 4, 5]), rng.randrange(0, 12)]) + bytes(rng.choice([0, 255, rng.randrange(256)]) for _ in range(rng.choice([2, 30, 100, 600])))
        return [1] + lp(body)
    body = rng.choice([b"", bytes(rng.randrange(256) for _ in range(rng.choice([1, 32, 36, 200]))),
                       bytes(32) + (0xFFFFFFFF).to_bytes(4, "big"), bytes(32) + (100).to_bytes(4, "big") + bytes(10),
                       bytes(rng.randrange(256) for _ in range(32)) + (1 << 24).to_bytes(4, "big") + bytes(64)])
    return [2] + lp(body)


def generate(rng, tier):
    n = {"quick": 120, "search": 200, "thorough": 1500}[tier]
    cases = []
    for i in range(n):
        if i % 3 != 2:
            prefix, kind = store_prefix(rng, True)
            nf = rng.choice([0, 1, 2, 4, 6])
            ints = [1] + prefix + [nf]
            for _ in range(nf):
                ints += hostile_action(rng)
            cases.append({"ints": ints, "tag": f"transport-tamper{kind}-{nf}actions"})
        else:
            prefix, kind = store_prefix(rng, True)
            nr = rng.randrange(1, 7)
            ints = [3] + prefix + [nr]
            for _ in range(nr):
                if rng.random() < 0.2:
                    ints += [2, rng.choice([0, 1])]       # a genuine FETCH whose sender hangs up before the answer
                elif rng.random() < 0.25:
                    raw = rng.choice([b"COMMAND:FETCH\n", b"COMMAND:FETCH\nMANIFEST:" + b"A" * 20000 + b"\n\n", b"\x00\x00\n\n", b":::\n:\n\n", b"\n",
                                      b"COMMAND:FETCH\nOUT:\n\n", b"COMMAND:FETCH\nMANIFEST:eph://" + bytes(rng.randrange(33, 127) for _ in range(50)) + b"\nOUT:\nSTREAM:client\n\n",
                                      bytes(rng.randrange(256) for _ in range(rng.choice([1, 50, 700])))])
                    ints += [0] + lp(raw)
                else:
                    ints += [1, rng.choice([0, 1, 1, 2, 2, 3]), rng.choice([0, 1, 1, 2, 3]), rng.choice([0, 1])]
            cases.append({"ints": ints, "tag": f"control-tamper{kind}"})
    return cases


def expand_requests(ints):
    """the control requests as the harness takes them: structured requests become header fields with place-holders"""
    out = []
    p = 0
    mode = ints[0]
    # find the start of the tail: parse the store prefix
    q = 1 + 32 + 2
    q += 1 + ints[q]
    q += 32 + 12
    q += 1 + ints[q]
    q += 4
    return mode, ints[:q], ints[q:]


def judge(case, impl, model):
    if not impl or impl[0] in (-2000, -1000):
        return {"fail": f"C35|abnormal|{impl[:2]}", "nontrivial": True}
    mode, head, tail = expand_requests(case["ints"])
    kind = head[-4]
    if mode == 1:
        if len(impl) < 5:
            return {"fail": f"C35|setup|{impl[:3]}"}
        probes = [impl[0], impl[2], impl[4]] + impl[5:]
        if any(p != 1 for p in probes):
            return {"fail": "C35|the-node-stopped-serving-an-honest-peer", "nontrivial": True}
        if impl[3] == -1:
            return {"fail": "C35|a-chunk-message-was-never-acknowledged", "nontrivial": True}
        return {"nontrivial": kind != 0 or len(impl) > 5}
    for k in range(0, len(impl), 3):
        threw, code, pong = impl[k:k + 3]
        if threw:
            return {"fail": "C35|an-exception-left-the-control-handler", "nontrivial": True}
        if pong != 1:
            return {"fail": "C35|the-control-plane-stopped-answering", "nontrivial": True}
        if code in (-2,):
            return {"fail": "C35|a-control-request-got-no-response", "nontrivial": True}
    return {"nontrivial": True}
