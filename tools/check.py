#!/usr/bin/env python3
"""Single entry point of the EphemeralNet Rocq verification machinery.

    tools/check.py C15 --tier quick|thorough
    tools/check.py C15 --replay <file>

Steps (DESIGN.md section 2.3):
 1. regenerate coq/gen/*.v from REPO's current sources; re-check props/Properties_<id>.v (kernel)
 2. build the implementation harness from REPO's working tree, build the extracted model runner
 3. run corpus + generated cases through both, diff (correspondence), evaluate the property oracle
 4. classify failures against known_findings.json; write evidence/<id>.json; print verdict
"""
import argparse
import importlib.util
import json
import os
import random
import sys
import time
import traceback
from collections import Counter
from pathlib import Path

sys.path.insert(0, str(Path(__file__).resolve().parent))
from ephverif import coqbuild, genconst, implbuild, runner  # noqa: E402
from ephverif.paths import CORPUS, EVIDENCE, FINDINGS, REPO, TOOLS, VERIF  # noqa: E402


def load_plugin(pid):
    path = TOOLS / "props" / f"{pid}.py"
    spec = importlib.util.spec_from_file_location(f"prop_{pid}", path)
    mod = importlib.util.module_from_spec(spec)
    spec.loader.exec_module(mod)
    return mod


def load_findings(pid):
    if not FINDINGS.exists():
        return []
    return [f for f in json.loads(FINDINGS.read_text()) if f.get("property") == pid]


def corpus_cases(pid):
    out = []
    d = CORPUS / pid
    if d.is_dir():
        for p in sorted(d.glob("*.case")):
            for line in p.read_text().splitlines():
                line = line.split("#")[0].strip()
                if line:
                    out.append({"ints": [int(x) for x in line.split()], "tag": "corpus:" + p.stem})
    return out


def asan_env():
    env = dict(os.environ)
    env["ASAN_OPTIONS"] = "detect_leaks=0:abort_on_error=0:allocator_may_return_null=1:detect_stack_use_after_return=0"
    env["UBSAN_OPTIONS"] = "print_stacktrace=0:halt_on_error=1"
    env.setdefault("LC_ALL", "C")
    return env


class Check:
    def __init__(self, pid, tier, seed):
        self.pid, self.tier, self.seed = pid, tier, seed
        self.plugin = load_plugin(pid)
        self.family = self.plugin.FAMILY
        self.t0 = time.time()
        self.notes = []

    # ---- building -------------------------------------------------------------------------
    def build_all(self):
        self.const_errors = genconst.regenerate()
        self.forbidden = coqbuild.scan_forbidden()
        self.proof = coqbuild.check_props(self.pid, [f"extract/Extract_{self.family}.vo"])
        self.model_error = None
        try:
            self.modelrun = coqbuild.build_modelrun(self.family)
        except RuntimeError as e:
            # the model no longer builds against the regenerated constants: the tie is broken, but the implementation can
            # still be searched for a failing input with the oracle alone
            self.modelrun = None
            self.model_error = str(e)[-1500:]
        pre = getattr(self.plugin, "prebuild", None)
        if pre:
            try:
                pre()
            except Exception as e:  # noqa: BLE001
                raise implbuild.BuildError(f"source extraction for the harness failed: {e}")
        flags = getattr(self.plugin, "HARNESS_FLAGS", ())
        libs = getattr(self.plugin, "HARNESS_LIBS", ("-lcurl", "-lpthread"))
        self.impl, self.impl_rebuilt = implbuild.build_harness(self.family, flags, libs)

    # ---- running --------------------------------------------------------------------------
    def run_both(self, cases):
        ints = [c["ints"] for c in cases]
        timeout = getattr(self.plugin, "TIMEOUT", 900)
        impl_out, crashes = runner.run_cases(self.impl, ints, timeout=timeout, env=asan_env())
        if self.modelrun is None:
            return impl_out, [None] * len(ints), crashes
        model_out, mcrash = runner.run_cases(self.modelrun, ints, timeout=timeout, big_stack=True)
        if mcrash:
            raise RuntimeError(f"model runner crashed on case {sorted(mcrash)[0]}: {list(mcrash.values())[0][-500:]}")
        return impl_out, model_out, crashes

    def judge(self, case, impl, model):
        """-> dict(nontrivial: bool, corr: bool, fail: None|signature)"""
        j = self.plugin.judge(case, impl, model)
        j.setdefault("corr", impl == model)
        j.setdefault("nontrivial", True)
        j.setdefault("fail", None)
        return j

    def explore(self, cases):
        impl_out, model_out, crashes = self.run_both(cases)
        res = []
        for i, c in enumerate(cases):
            j = self.judge(c, impl_out[i], model_out[i])
            res.append({"case": c, "impl": impl_out[i], "model": model_out[i], "judge": j,
                        "stderr": crashes.get(i)})
        return res

    # ---- verdict --------------------------------------------------------------------------
    def write_replay(self, name, payload):
        d = EVIDENCE / "replays"
        d.mkdir(parents=True, exist_ok=True)
        p = d / f"{self.pid}-{name}.replay"
        p.write_text(json.dumps(payload) + "\n")
        return p

    def shrink(self, r):
        shr = getattr(self.plugin, "shrink", None)
        if shr is None:
            return r
        best = r
        sig = r["judge"]["fail"]
        budget = 60
        progress = True
        while progress and budget > 0:
            progress = False
            cands = list(shr(best["case"]))[:40]
            if not cands:
                break
            budget -= 1
            results = self.explore(cands)
            for rr in results:
                if rr["judge"]["fail"] == sig and len(rr["case"]["ints"]) < len(best["case"]["ints"]):
                    best = rr
                    progress = True
                    break
        return best

    def run(self):
        pid = self.pid
        rng = random.Random(self.seed)
        try:
            self.build_all()
        except implbuild.BuildError as e:
            # The harness is compiled from REPO's current tree (including code copied verbatim out of it).  If that no
            # longer builds, the correspondence cannot be established: the property is no longer shown to hold.
            print(f"check {pid}: harness does not build against the current tree: {e}", file=sys.stderr)
            p = self.write_replay("tie", {"property": pid, "seed": self.seed,
                                          "reason": ["correspondence harness no longer builds against the current source tree "
                                                     f"(harness/impl_{self.family}.cpp and the code it takes from the tree)"],
                                          "build_error": str(e)[-3000:]})
            self.proof = getattr(self, "proof", None) or {"ok": False, "theorems": [], "closure": [], "obligations": 0,
                                                          "discharged": 0, "assumptions": [], "log": ""}
            self.impl_rebuilt = True
            self.write_evidence([], 1, {}, False, [])
            print(f"VIOLATION property={pid} replay={p} no-failing-input-found")
            print(f"check {pid} [{self.tier}] FAIL: harness build failed")
            return 1
        findings = load_findings(pid)
        open_sigs = {f["signature"]: f for f in findings if f.get("status") == "open"}

        cases = corpus_cases(pid) + list(self.plugin.generate(rng, self.tier))
        results = self.explore(cases)

        proof_ok = self.proof["ok"] and not self.forbidden and not self.const_errors and not self.model_error
        corr_bad = [r for r in results if not r["judge"]["corr"]]
        failing = [r for r in results if r["judge"]["fail"]]

        searched = 0
        if (not proof_ok or corr_bad) and not [r for r in failing if r["judge"]["fail"] not in open_sigs]:
            # search for a concrete failing input with further seeds (DESIGN 2.3 / 5)
            extra = 8 if self.tier == "thorough" else 3
            for k in range(1, extra + 1):
                more = list(self.plugin.generate(random.Random(self.seed * 1000003 + k), "search"))
                searched += len(more)
                rs = self.explore(more)
                results += rs
                failing += [r for r in rs if r["judge"]["fail"]]
                corr_bad += [r for r in rs if not r["judge"]["corr"]]
                if [r for r in rs if r["judge"]["fail"] and r["judge"]["fail"] not in open_sigs]:
                    break

        known_hit, new_fail = {}, []
        for r in failing:
            sig = r["judge"]["fail"]
            if sig in open_sigs:
                known_hit.setdefault(sig, r)
            else:
                new_fail.append(r)

        exit_code = 0
        lines = []
        for sig, r in sorted(known_hit.items()):
            lines.append(f"KNOWN-FINDING: property={pid} {open_sigs[sig]['what']} [signature {sig}]")
        violations = 0
        if new_fail:
            seen = set()
            for r in new_fail:
                sig = r["judge"]["fail"]
                if sig in seen:
                    continue
                seen.add(sig)
                r = self.shrink(r)
                p = self.write_replay(f"{len(seen)}", {
                    "property": pid, "signature": sig, "seed": self.seed, "tag": r["case"].get("tag"),
                    "case": r["case"]["ints"], "impl": r["impl"], "model": r["model"],
                    "impl_stderr": r.get("stderr"), "how": f"tools/check.py {pid} --replay <this file>"})
                lines.append(f"VIOLATION property={pid} replay={p}")
                violations += 1
                if violations >= 5:
                    break
            exit_code = 1
        elif not proof_ok or corr_bad:
            why = []
            if self.const_errors:
                why += [f"constant translator: {e}" for e in self.const_errors]
            if self.forbidden:
                why += [f"forbidden token {t} at {f}:{n}" for f, n, t in self.forbidden]
            if not self.proof["ok"]:
                why.append("proof obligation no longer checks: props/Properties_%s.v (see log)" % pid)
            if self.model_error:
                why.append("the model no longer builds against the constants regenerated from the source: " + self.model_error[-600:])
            payload = {"property": pid, "seed": self.seed, "reason": why,
                       "theorems": self.proof["theorems"],
                       "proof_log_tail": self.proof["log"][-3000:] if not self.proof["ok"] else None,
                       "correspondence_disagreements": [
                           {"tag": r["case"].get("tag"), "case": r["case"]["ints"][:400], "impl": r["impl"][:400] if r["impl"] else r["impl"],
                            "model": r["model"][:400] if r["model"] else r["model"]} for r in corr_bad[:5]],
                       "searched_extra_cases": searched}
            p = self.write_replay("tie", payload)
            lines.append(f"VIOLATION property={pid} replay={p} no-failing-input-found")
            violations = 1
            exit_code = 1

        self.write_evidence(results, violations, known_hit, proof_ok, corr_bad)
        for ln in lines:
            print(ln)
        status = "OK" if exit_code == 0 else "FAIL"
        print(f"check {pid} [{self.tier}] {status}: proof_ok={proof_ok} cases={len(results)} "
              f"corr_disagreements={len(corr_bad)} failing={len(failing)} known={len(known_hit)} "
              f"wall={time.time() - self.t0:.1f}s")
        return exit_code

    def write_evidence(self, results, violations, known_hit, proof_ok, corr_bad):
        EVIDENCE.mkdir(exist_ok=True)
        distinct = set()
        tags = Counter()
        outcomes = Counter()
        for r in results:
            tags[(r["case"].get("tag") or "").split(":")[0]] += 1
            if r["judge"]["nontrivial"]:
                distinct.add(json.dumps(r["impl"]))
            oc = getattr(self.plugin, "outcome_class", None)
            if oc:
                outcomes[oc(r["case"], r["impl"])] += 1
        samples = []
        for r in results[:: max(1, len(results) // 3)][:3]:
            samples.append({"tag": r["case"].get("tag"), "case": r["case"]["ints"][:120],
                            "impl": (r["impl"] or [])[:120], "model": (r["model"] or [])[:120]})
        for th in self.proof["theorems"][:6]:
            samples.append({"obligation": th, "file": f"coq/props/Properties_{self.pid}.v"})
        ev = {
            "property_id": self.pid, "tier": self.tier, "seed": self.seed, "level": "proof",
            "coverage": {
                "obligations": self.proof["obligations"], "discharged": self.proof["discharged"],
                "checker_cmd": f"make -C coq props/Properties_{self.pid}.vo  (coqc 8.16.1 full .vo build; the property file's .vo is deleted and re-checked on every run)",
                "trusted_base": self.proof["assumptions"] + list(getattr(self.plugin, "TRUSTED", [])),
                "property_theorems": self.proof["theorems"],
                "proof_files": self.proof["closure"],
                "proof_ok": proof_ok,
                "evaluations": len(results),
                "distinct_nontrivial": len(distinct),
                "traces_validated_against_impl": sum(1 for r in results if r["judge"]["corr"]),
                "correspondence_disagreements": len(corr_bad),
                "rule": getattr(self.plugin, "RULE", ""),
                "input_distribution": dict(tags), "outcome_distribution": dict(outcomes),
                "known_findings_reproduced": sorted(known_hit),
                "samples": samples,
                "impl_rebuilt_this_run": bool(self.impl_rebuilt),
                "repo": str(REPO),
            },
            "assumptions": list(getattr(self.plugin, "ASSUMPTIONS", [])),
            "wall_s": round(time.time() - self.t0, 2),
            "violations": violations,
        }
        (EVIDENCE / f"{self.pid}.json").write_text(json.dumps(ev, indent=1) + "\n")

    def replay(self, path):
        data = json.loads(Path(path).read_text())
        if "case" not in data:
            print(json.dumps(data, indent=1))
            print("(no concrete case in this replay file: it names the theorem/correspondence that no longer checks)")
            return 0
        self.build_all()
        r = self.explore([{"ints": data["case"], "tag": "replay"}])[0]
        print("case :", data["case"])
        print("impl :", r["impl"])
        print("model:", r["model"])
        print("judge:", r["judge"])
        if r.get("stderr"):
            print("stderr:", r["stderr"][-1500:])
        return 1 if r["judge"]["fail"] else 0


def main():
    ap = argparse.ArgumentParser()
    ap.add_argument("pid")
    ap.add_argument("--tier", default=os.environ.get("VERIF_TIER", "quick"), choices=["quick", "thorough"])
    ap.add_argument("--replay")
    a = ap.parse_args()
    seed = int(os.environ.get("VERIF_SEED", "1"))
    chk = Check(a.pid, a.tier, seed)
    try:
        if a.replay:
            sys.exit(chk.replay(a.replay))
        sys.exit(chk.run())
    except SystemExit:
        raise
    except Exception:
        traceback.print_exc()
        sys.exit(2)


if __name__ == "__main__":
    main()
