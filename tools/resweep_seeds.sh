#!/bin/sh
# developer tool: re-run the quick check of every filed seeded change against a scratch worktree at /repo's HEAD.
#   tools/resweep_seeds.sh <worktree> [Cxx ...]
# One line per seed in build/resweep.log: "<seed> caught | MISSED | patch-does-not-apply".  Sequential by design: a run
# regenerates coq/gen from the worktree, so two runs must never overlap (nor overlap a registered check).
wt=$1; shift
cd "$(dirname "$0")/.."
log=build/resweep.log; : > "$log"
sel="$*"
for d in seeded/*/; do
  s=$(basename "$d"); pid=${s%%-*}
  if [ -n "$sel" ]; then case " $sel " in *" $pid "*) ;; *) continue;; esac; fi
  git -C "$wt" checkout -q -- . 2>/dev/null; git -C "$wt" clean -fdq -e _build -e _scratch 2>/dev/null
  if ! git -C "$wt" apply "$PWD/$d/patch.diff" 2>/dev/null; then echo "$s patch-does-not-apply" >> "$log"; continue; fi
  out=$(VERIF_REPO="$wt" timeout 3000 python3 tools/check.py "$pid" --tier quick 2>&1 | tail -6)
  if echo "$out" | grep -q "^VIOLATION property=$pid "; then echo "$s caught: $(echo "$out" | grep VIOLATION | head -1)" >> "$log"
  else echo "$s MISSED: $(echo "$out" | tail -1)" >> "$log"; fi
  git -C "$wt" checkout -q -- .
done
python3 -c "import sys; sys.path.insert(0,'tools'); from ephverif import genconst; genconst.regenerate()"
echo done >> "$log"
