#!/bin/sh
# developer tool: run a check against a scratch worktree with a candidate breaking change applied.
#   tools/muttest.sh <Cxx> <worktree> <patch.diff> [tier]
# The worktree is restored afterwards; /repo is never touched.  Constants are regenerated for /repo at the end.
pid=$1; wt=$2; patch=$3; tier=${4:-quick}
cd "$(dirname "$0")/.."
git -C "$wt" checkout -q -- . && git -C "$wt" apply "$patch" || { echo "patch does not apply"; exit 3; }
VERIF_REPO="$wt" python3 tools/check.py "$pid" --tier "$tier" 2>&1 | tail -8
rc=$?
git -C "$wt" checkout -q -- .
python3 -c "import sys; sys.path.insert(0,'tools'); from ephverif import genconst; genconst.regenerate()"
