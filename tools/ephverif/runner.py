"""Run a line-protocol executable over a list of cases, surviving crashes of individual cases."""
import resource
import signal
import subprocess
import threading

CRASH = -2000          # first int of a synthesized output line for a case that killed the process
KIND_SANITIZER = 1     # ASan / UBSan report
KIND_HANG = 2          # per-case alarm fired (SIGALRM) or global timeout
KIND_TERMINATE = 3     # std::terminate / abort / other signal
KIND_EXIT = 4          # process exited with a non-zero status by itself


def _classify(rc, stderr):
    if "AddressSanitizer" in stderr or "runtime error:" in stderr or "LeakSanitizer" in stderr \
            or "UndefinedBehaviorSanitizer" in stderr:
        return KIND_SANITIZER
    if rc == -signal.SIGALRM:
        return KIND_HANG
    if rc < 0 or "terminate called" in stderr:
        return KIND_TERMINATE
    return KIND_EXIT


def _big_stack():
    # extracted OCaml code recurses non-tail on long lists (64 KiB strings): give it the whole hard limit
    try:
        soft, hard = resource.getrlimit(resource.RLIMIT_STACK)
        resource.setrlimit(resource.RLIMIT_STACK, (hard, hard))
    except (ValueError, OSError):
        pass


def run_cases(exe, cases, timeout=600, env=None, args=(), big_stack=False):
    """cases: list of list[int].  Returns (outputs: list[list[int]], crashes: {index: stderr_excerpt})."""
    outputs = [None] * len(cases)
    crashes = {}
    start = 0
    while start < len(cases):
        payload = "".join(" ".join(map(str, c)) + "\n" for c in cases[start:]).encode()
        proc = subprocess.Popen([str(exe)] + list(args), stdin=subprocess.PIPE, stdout=subprocess.PIPE,
                                stderr=subprocess.PIPE, env=env, preexec_fn=_big_stack if big_stack else None)

        def feed():
            try:
                proc.stdin.write(payload)
                proc.stdin.close()
            except (BrokenPipeError, OSError):
                pass

        t = threading.Thread(target=feed, daemon=True)
        t.start()
        err_chunks = []

        def drain():
            err_chunks.append(proc.stderr.read())

        te = threading.Thread(target=drain, daemon=True)
        te.start()
        timer = threading.Timer(timeout, proc.kill)
        timer.start()
        n = 0
        try:
            for line in proc.stdout:
                line = line.strip()
                outputs[start + n] = [int(x) for x in line.split()] if line else []
                n += 1
                if start + n >= len(cases):
                    break
        finally:
            rc = proc.wait()
            timer.cancel()
            te.join(5)
        stderr = (err_chunks[0] if err_chunks else b"").decode(errors="replace")
        if start + n >= len(cases):
            if rc != 0 and n > 0 and "LeakSanitizer" not in stderr:
                # died after the last answer (e.g. in a destructor): attribute to the last case
                pass
            break
        # case start+n killed the process
        idx = start + n
        kind = _classify(rc, stderr)
        outputs[idx] = [CRASH, kind]
        crashes[idx] = stderr[-3000:]
        start = idx + 1
    return outputs, crashes
