"""Locations used by every tool.  REPO may be redirected with VERIF_REPO (used only while
developing fixes in a scratch worktree; the registered commands never set it)."""
import os
from pathlib import Path

VERIF = Path(__file__).resolve().parents[2]
REPO = Path(os.environ.get("VERIF_REPO", "/repo")).resolve()
BUILD = VERIF / "build"
COQ = VERIF / "coq"
HARNESS = VERIF / "harness"
TOOLS = VERIF / "tools"
# evidence is only ever written for /repo itself: a run redirected to a scratch worktree writes under build/
EVIDENCE = VERIF / "evidence" if "VERIF_REPO" not in os.environ else BUILD / "dev-evidence"
CORPUS = VERIF / "corpus"
FINDINGS = VERIF / "known_findings.json"
JOBS = int(os.environ.get("VERIF_JOBS", "16"))

CXX = os.environ.get("VERIF_CXX", "g++")
CXXFLAGS = [
    "-std=c++20", "-O1", "-g", "-fno-omit-frame-pointer",
    "-fsanitize=address,undefined", "-fno-sanitize-recover=all",
    "-D_FILE_OFFSET_BITS=64", "-DEPHEMERALNET_VERIF=1", "-w",
]
