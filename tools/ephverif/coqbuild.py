"""Build the Rocq/Coq development (full .vo build only) and the extracted OCaml model runners."""
import hashlib
import os
import re
import subprocess
import time
from pathlib import Path

from .implbuild import locked
from .paths import BUILD, COQ, JOBS, VERIF

FORBIDDEN = re.compile(
    r"\b(Admitted|admit|Axiom|Axioms|Parameter|Parameters|Conjecture|Conjectures|Admit Obligations|"
    r"bypass_check|Unset Guard Checking|Unset Positivity Checking|Unset Universe Checking|"
    r"type-in-type|impredicative-set|native_compute)\b")
STATEMENT = re.compile(r"^\s*(?:Local\s+|Global\s+|#\[[^\]]*\]\s*)*(Theorem|Lemma|Example|Corollary|Fact|Remark|Proposition)\s+([A-Za-z0-9_']+)", re.M)


def strip_comments(text):
    out, depth, i = [], 0, 0
    while i < len(text):
        if text.startswith("(*", i):
            depth += 1
            i += 2
        elif text.startswith("*)", i) and depth:
            depth -= 1
            i += 2
        else:
            if depth == 0:
                out.append(text[i])
            i += 1
    return "".join(out)


def v_files():
    return sorted(str(p.relative_to(COQ)) for p in COQ.rglob("*.v"))


def write_project():
    """(Re)generate _CoqProject and Makefile when the set of .v files changed."""
    files = v_files()
    content = "-Q . EphVerif\n-arg -w -arg -all\n" + "\n".join(files) + "\n"
    proj = COQ / "_CoqProject"
    if not proj.exists() or proj.read_text() != content or not (COQ / "Makefile").exists():
        proj.write_text(content)
        r = subprocess.run(["coq_makefile", "-f", "_CoqProject", "-o", "Makefile"], cwd=COQ,
                           capture_output=True, text=True)
        if r.returncode != 0:
            raise RuntimeError("coq_makefile failed: " + r.stderr)


def scan_forbidden():
    """Every .v file is scanned (comments stripped).  Returns list of (file, line, token)."""
    hits = []
    for f in v_files():
        text = strip_comments((COQ / f).read_text())
        for n, line in enumerate(text.splitlines(), 1):
            m = FORBIDDEN.search(line)
            if m:
                hits.append((f, n, m.group(1)))
    return hits


def make(targets, timeout=3000, keep_going=True):
    """make the given .vo targets (full build, never -vos).  Returns (ok, log)."""
    (BUILD / "extracted").mkdir(parents=True, exist_ok=True)
    with locked("coq"):
        write_project()
        cmd = ["timeout", str(timeout), "make", "-j", str(JOBS)] + (["-k"] if keep_going else []) + list(targets)
        r = subprocess.run(cmd, cwd=COQ, capture_output=True, text=True)
    return r.returncode == 0, r.stdout + r.stderr


def dep_closure(vfile):
    """Project files the given file (relative to coq/) transitively Requires (via coqdep)."""
    files = v_files()
    r = subprocess.run(["coqdep", "-Q", ".", "EphVerif"] + files, cwd=COQ, capture_output=True, text=True)
    deps = {}
    for line in r.stdout.splitlines():
        if ":" not in line:
            continue
        lhs, rhs = line.split(":", 1)
        tgt = [t for t in lhs.split() if t.endswith(".vo")]
        if not tgt:
            continue
        src = tgt[0][:-1]
        deps[src] = [d[:-1] for d in rhs.split() if d.endswith(".vo") and not d.startswith("/")]
    seen, todo = set(), [vfile]
    while todo:
        f = os.path.normpath(todo.pop())
        if f in seen:
            continue
        seen.add(f)
        todo.extend(deps.get(f, []))
    return sorted(x for x in seen if (COQ / x).exists())


def count_statements(files):
    n = 0
    names = []
    for f in files:
        text = strip_comments((COQ / f).read_text())
        for m in STATEMENT.finditer(text):
            n += 1
            names.append(f"{f}:{m.group(2)}")
    return n, names


def check_props(prop_id, extra_targets=()):
    """Re-check props/Properties_<id>.v from scratch (its .vo is removed first, so the kernel
    re-checks the property theorems against the freshly regenerated constants on every run) and
    capture the Print Assumptions output.  Returns dict."""
    rel = f"props/Properties_{prop_id}.v"
    vo = COQ / (rel + "o")
    if vo.exists():
        vo.unlink()
    t0 = time.time()
    ok, log = make([rel + "o"] + list(extra_targets))
    for _ in range(2):
        if ok and not vo.exists():
            # make reported success but the object file is not visible (seen once on a freshly restored
            # copy with several checks running at once): build again rather than report a half-result
            time.sleep(0.5)
            ok, log2 = make([rel + "o"] + list(extra_targets))
            log += log2
    built = ok and vo.exists()
    closure = dep_closure(rel)
    obligations, names = count_statements(closure)
    if built:
        # make succeeded: every file in the closure was (re)compiled or found up to date by make
        discharged = obligations
    else:
        discharged = 0
        for f in closure:
            if f != rel and (COQ / (f + "o")).exists() and \
                    (COQ / (f + "o")).stat().st_mtime >= (COQ / f).stat().st_mtime:
                discharged += count_statements([f])[0]
    # Print Assumptions output is in the make log (coqc stdout) -- keep the relevant lines
    assumptions = []
    lines = log.splitlines()
    i = 0
    while i < len(lines):
        ln = lines[i]
        if ln.startswith("Closed under the global context"):
            assumptions.append(ln.strip())
        elif ln.startswith("Axioms:"):
            blk = [ln.strip()]
            i += 1
            while i < len(lines) and (lines[i].startswith(" ") or lines[i].strip() == "" and False):
                blk.append(lines[i].strip())
                i += 1
            assumptions.append(" ".join(blk))
            continue
        i += 1
    theorems = [n.split(":")[1] for n in names if n.startswith(rel + ":")]
    return {"ok": built, "log": log, "closure": closure, "obligations": obligations,
            "discharged": discharged, "assumptions": assumptions, "theorems": theorems,
            "secs": time.time() - t0}


def build_modelrun(family):
    """Extracted OCaml runner for a model family.  coq/extract/Extract_<family>.v must write
    ../build/extracted/m_<family>.ml with a function `run : z list -> z list`."""
    (BUILD / "extracted").mkdir(parents=True, exist_ok=True)
    ml = BUILD / "extracted" / f"m_{family}.ml"
    ext_v = COQ / "extract" / f"Extract_{family}.v"
    vo = Path(str(ext_v) + "o")
    if not ml.exists() and vo.exists():
        vo.unlink()
    ok, log = make([f"extract/Extract_{family}.vo"])
    if not ok or not ml.exists():
        raise RuntimeError(f"extraction of {family} failed:\n{log[-4000:]}")
    driver = (VERIF / "ocaml" / "driver.ml").read_text()
    h = hashlib.sha256(ml.read_bytes() + driver.encode()).hexdigest()[:12]
    out = BUILD / "ocaml" / family
    exe = out / f"modelrun_{h}"
    with locked("ocaml-" + family):
        if exe.exists():
            return exe
        out.mkdir(parents=True, exist_ok=True)
        for old in out.glob("modelrun_*"):
            old.unlink()
        mod = "M_" + family
        (out / f"m_{family}.ml").write_bytes(ml.read_bytes())
        mli = BUILD / "extracted" / f"m_{family}.mli"
        srcs = []
        if mli.exists():
            (out / f"m_{family}.mli").write_bytes(mli.read_bytes())
            srcs.append(f"m_{family}.mli")
        srcs.append(f"m_{family}.ml")
        (out / "main.ml").write_text(driver.replace("MODEL", mod))
        srcs.append("main.ml")
        r = subprocess.run(["ocamlfind", "ocamlopt", "-O3", "-w", "-a"] + srcs + ["-o", exe.name + ".tmp"],
                           cwd=out, capture_output=True, text=True)
        if r.returncode != 0:
            r = subprocess.run(["ocamlfind", "ocamlopt", "-w", "-a"] + srcs + ["-o", exe.name + ".tmp"],
                               cwd=out, capture_output=True, text=True)
        if r.returncode != 0:
            raise RuntimeError("ocamlopt failed: " + r.stderr[-3000:])
        os.rename(out / (exe.name + ".tmp"), exe)
    return exe
