"""Translator A (DESIGN 2.2): regenerate coq/gen/Constants_<name>.v from REPO's current sources.

Each tools/constants/<name>.py defines  SPEC = [ (coq_name, relpath, regex, kind) ... ]  where the
regex is anchored on the declaration and has one capture group, and kind is
  'int'      decimal / hex integer literal (suffixes u, U, l, L, ' removed)   -> Z
  'intlist'  brace-enclosed list of integer literals                           -> list Z
  'string'   a C string literal                                                -> list Z (bytes)
  'seconds'  std::chrono::{seconds,minutes,hours}(N) / {N} expression          -> Z seconds
or a module-level function extract(repo) -> dict name -> coq term (for anything irregular).
A declaration that can no longer be found is reported (and its constant omitted, so dependent
theorems stop compiling): that is 'correspondence broken', never silently ignored.
"""
import importlib.util
import re
from pathlib import Path

from .paths import COQ, REPO, TOOLS

HEADER = ("(* GENERATED on every run by tools/ephverif/genconst.py from the current sources of {repo}\n"
          "   -- do not edit; not committed. *)\n"
          "Require Import ZArith List.\nImport ListNotations.\nLocal Open Scope Z_scope.\n\n")


def parse_int(text):
    t = text.strip().replace("'", "")
    t = re.sub(r"[uUlL]+$", "", t)
    if t.lower().startswith("0x"):
        return int(t, 16)
    return int(t, 10)


def parse_seconds(text):
    t = text.strip()
    m = re.match(r"(?:std::chrono::)?(seconds|minutes|hours|milliseconds)\s*[({]\s*([0-9']+)\s*[)}]", t)
    if not m:
        raise ValueError(f"not a chrono literal: {t!r}")
    n = parse_int(m.group(2))
    return {"seconds": n, "minutes": 60 * n, "hours": 3600 * n}[m.group(1)]


def zlist(vals):
    return "[" + "; ".join(str(v) for v in vals) + "]"


def convert(kind, cap):
    if kind == "int":
        return str(parse_int(cap)), "Z"
    if kind == "seconds":
        return str(parse_seconds(cap)), "Z"
    if kind == "product":      # integer literals joined by '*', e.g. 1 * 1024 * 1024
        v = 1
        for f in cap.split("*"):
            v *= parse_int(f)
        return str(v), "Z"
    if kind == "intlist":
        items = [x for x in re.split(r"[,\s]+", cap.strip()) if x]
        return zlist(parse_int(x) for x in items), "list Z"
    if kind == "string":
        return zlist(cap.encode().decode("unicode_escape").encode("latin1")), "list Z"
    raise ValueError(kind)


def load_specs():
    mods = []
    for p in sorted((TOOLS / "constants").glob("*.py")):
        spec = importlib.util.spec_from_file_location("const_" + p.stem, p)
        m = importlib.util.module_from_spec(spec)
        spec.loader.exec_module(m)
        mods.append((p.stem, m))
    return mods


def regenerate():
    """Returns a list of error strings (empty when every declaration was found)."""
    errors = []
    (COQ / "gen").mkdir(exist_ok=True)
    cache = {}
    for name, mod in load_specs():
        body = []
        for coq_name, rel, rx, kind in getattr(mod, "SPEC", []):
            path = REPO / rel
            try:
                if rel not in cache:
                    cache[rel] = path.read_text(errors="replace")
                m = re.search(rx, cache[rel], re.S | re.M)
                if not m:
                    raise ValueError("declaration not found")
                term, ty = convert(kind, m.group(1))
                line = cache[rel].count("\n", 0, m.start(1)) + 1
                body.append(f"Definition {coq_name} : {ty} := {term}. (* {rel}:{line} *)\n")
            except Exception as e:  # noqa: BLE001
                errors.append(f"{name}.{coq_name}: {rel}: {e}")
        if hasattr(mod, "extract"):
            try:
                for k, (term, ty, where) in mod.extract(REPO).items():
                    body.append(f"Definition {k} : {ty} := {term}. (* {where} *)\n")
            except Exception as e:  # noqa: BLE001
                errors.append(f"{name}.extract: {e}")
        content = HEADER.format(repo="/repo") + "".join(body)
        out = COQ / "gen" / f"Constants_{name}.v"
        if not out.exists() or out.read_text() != content:
            out.write_text(content)
    return errors


if __name__ == "__main__":
    for e in regenerate():
        print("ERROR", e)
