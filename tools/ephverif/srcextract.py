"""Textual extraction of function definitions from REPO's current sources (translator, DESIGN 2.2 A').

Used for code the harness cannot link against: functions in anonymous namespaces of main.cpp and
lambdas inside very large functions.  The text is copied verbatim (brace matching that skips string and
character literals and comments) into a generated header compiled into the harness on every run, so the
harness always runs what the source says now; a function that can no longer be found is an error."""
import re


def _skip_literal(text, k):
    q = text[k]
    k += 1
    while text[k] != q:
        if text[k] == "\\":
            k += 1
        k += 1
    return k


def match_brace(text, j):
    """text[j] == '{' -> index of the matching '}'"""
    depth, k = 0, j
    n = len(text)
    while k < n:
        c = text[k]
        if c == '"':
            k = _skip_literal(text, k)
        elif c == "'" and not (k > 0 and (text[k - 1].isalnum())):   # not a digit separator 500'000
            k = _skip_literal(text, k)
        elif text.startswith("//", k):
            k = text.index("\n", k)
            continue
        elif text.startswith("/*", k):
            k = text.index("*/", k) + 1
        elif c == "{":
            depth += 1
        elif c == "}":
            depth -= 1
            if depth == 0:
                return k
        k += 1
    raise ValueError("unbalanced braces")


def function(text, head_regex):
    """Return the full text of the first definition whose head matches head_regex (regex must match from the
    start of the return type up to somewhere before the opening brace of the body)."""
    m = re.search(head_regex, text, re.M)
    if not m:
        raise ValueError(f"definition not found: {head_regex}")
    # find the body's opening brace: first '{' after the closing parenthesis of the parameter list
    i = text.index("(", m.end() - 1 if text[m.end() - 1] == "(" else m.end())
    depth, k = 0, i
    while True:
        if text[k] == "(":
            depth += 1
        elif text[k] == ")":
            depth -= 1
            if depth == 0:
                break
        k += 1
    j = text.index("{", k)
    semi = text.find(";", k, j)
    if semi != -1:
        raise ValueError(f"{head_regex}: matched a declaration, not a definition")
    e = match_brace(text, j)
    return text[m.start():e + 1]


def functions(text, names, ret_pat=r"[\w:<>,\s\*&]+?"):
    """Definitions of free functions by name, in the given order."""
    out = []
    for n in names:
        out.append(function(text, r"^(?:static\s+|inline\s+|constexpr\s+)*" + ret_pat + r"\b" + re.escape(n) + r"\s*\("))
    return out


def constant(text, name):
    m = re.search(r"^\s*(?:static\s+)?constexpr\s+[\w:<>\s]+?\b" + re.escape(name) + r"\s*(?:\{[^;]*\}|=[^;]*);", text, re.M)
    if not m:
        raise ValueError(f"constant not found: {name}")
    return m.group(0).strip()
