"""Build the implementation side of the correspondence from REPO's *current working tree*.

All of src/**/*.cpp (except the two main.cpp files) are compiled with ASan+UBSan into a
static library cached under build/impl/<hash>/, where <hash> covers every file below
REPO/src and REPO/include plus the flags -- so an edited tree always rebuilds and an
unchanged one never does.  Harness drivers (harness/impl_<family>.cpp) are linked against it.
"""
import fcntl
import hashlib
import os
import shutil
import subprocess
import sys
import time
from concurrent.futures import ThreadPoolExecutor
from contextlib import contextmanager
from pathlib import Path

from .paths import BUILD, CXX, CXXFLAGS, HARNESS, JOBS, REPO

EXCLUDE = {"src/main.cpp", "src/relay/main.cpp"}


class BuildError(Exception):
    pass


@contextmanager
def locked(name):
    BUILD.mkdir(parents=True, exist_ok=True)
    with open(BUILD / (name + ".lock"), "w") as fh:
        fcntl.flock(fh, fcntl.LOCK_EX)
        try:
            yield
        finally:
            fcntl.flock(fh, fcntl.LOCK_UN)


def _tree_files():
    out = []
    for sub in ("src", "include"):
        base = REPO / sub
        for p in sorted(base.rglob("*")):
            if p.is_file():
                out.append(p)
    return out


def repo_hash():
    h = hashlib.sha256()
    h.update(" ".join([CXX] + CXXFLAGS).encode())
    for p in _tree_files():
        h.update(str(p.relative_to(REPO)).encode() + b"\0")
        h.update(p.read_bytes())
        h.update(b"\0")
    return h.hexdigest()[:20]


def _prune(keep):
    root = BUILD / "impl"
    if not root.exists():
        return
    dirs = sorted((d for d in root.iterdir() if d.is_dir() and d.name != keep),
                  key=lambda d: d.stat().st_mtime, reverse=True)
    for d in dirs[6:]:
        shutil.rmtree(d, ignore_errors=True)


def build_lib():
    """Returns (dir, seconds, rebuilt)."""
    t0 = time.time()
    hv = repo_hash()
    d = BUILD / "impl" / hv
    lib = d / "libeph.a"
    with locked("impl-" + hv):
        if lib.exists():
            os.utime(d)
            return d, time.time() - t0, False
        d.mkdir(parents=True, exist_ok=True)
        srcs = [p for p in sorted((REPO / "src").rglob("*.cpp"))
                if str(p.relative_to(REPO)) not in EXCLUDE]
        objs = []

        def compile_one(p):
            o = d / (str(p.relative_to(REPO / "src")).replace("/", "_")[:-4] + ".o")
            cmd = [CXX] + CXXFLAGS + ["-I", str(REPO / "include"), "-c", str(p), "-o", str(o)]
            r = subprocess.run(cmd, capture_output=True, text=True)
            return p, o, r

        with ThreadPoolExecutor(max_workers=JOBS) as ex:
            for p, o, r in ex.map(compile_one, srcs):
                if r.returncode != 0:
                    raise BuildError(f"compiling {p} failed:\n{r.stderr[-4000:]}")
                objs.append(str(o))
        tmp = d / "libeph.a.tmp"
        r = subprocess.run(["ar", "rcs", str(tmp)] + objs, capture_output=True, text=True)
        if r.returncode != 0:
            raise BuildError("ar failed: " + r.stderr)
        tmp.rename(lib)
        _prune(hv)
    return d, time.time() - t0, True


def build_harness(family, extra_flags=(), libs=("-lcurl", "-lpthread")):
    """Compile harness/impl_<family>.cpp against the current tree.  Returns path of the executable."""
    d, secs, rebuilt = build_lib()
    src = HARNESS / f"impl_{family}.cpp"
    extra = HARNESS / f"impl_{family}_extra.cpp"      # optional second translation unit (e.g. another #include-d .cpp of the repo)
    hh = hashlib.sha256()
    hh.update(src.read_bytes())
    if extra.exists():
        hh.update(extra.read_bytes())
    hh.update((HARNESS / "common.hpp").read_bytes())
    hh.update(" ".join(extra_flags).encode())
    exe = d / f"impl_{family}_{hh.hexdigest()[:12]}"
    with locked(f"harness-{d.name}-{family}"):
        if not exe.exists():
            for old in d.glob(f"impl_{family}_*"):
                old.unlink()
            cmd = ([CXX] + CXXFLAGS + list(extra_flags) +
                   ["-I", str(HARNESS), "-I", str(REPO / "include"), "-I", str(REPO / "src"),
                    "-I", str(REPO), str(src)] + ([str(extra)] if extra.exists() else []) +
                   [str(d / "libeph.a")] + list(libs) + ["-o", str(exe) + ".tmp"])
            r = subprocess.run(cmd, capture_output=True, text=True)
            if r.returncode != 0:
                raise BuildError(f"building harness {family} failed:\n{r.stderr[-6000:]}")
            os.rename(str(exe) + ".tmp", exe)
    return exe, rebuilt


if __name__ == "__main__":
    fams = sys.argv[1:]
    d, secs, rebuilt = build_lib()
    print(f"impl lib {d} rebuilt={rebuilt} {secs:.1f}s")
    for f in fams:
        print(build_harness(f))
