#!/usr/bin/env python3
"""MANIFEST.setup_cmd: build everything from files on disk (offline): regenerate constants, full .vo build
of the Rocq development, extracted model runners, sanitizer build of /repo and every harness."""
import sys
import time
from concurrent.futures import ThreadPoolExecutor
from pathlib import Path

sys.path.insert(0, str(Path(__file__).resolve().parent))
from ephverif import coqbuild, genconst, implbuild  # noqa: E402
from ephverif.paths import COQ, HARNESS, TOOLS  # noqa: E402
import importlib.util  # noqa: E402

t0 = time.time()
errs = genconst.regenerate()
for e in errs:
    print("constant translator:", e)
ok, log = coqbuild.make([], timeout=3400)
print(f"coq make ok={ok} {time.time() - t0:.0f}s")
if not ok:
    print(log[-6000:])
fams = {}
for p in sorted((TOOLS / "props").glob("C*.py")):
    spec = importlib.util.spec_from_file_location("p_" + p.stem, p)
    m = importlib.util.module_from_spec(spec)
    spec.loader.exec_module(m)
    if hasattr(m, "prebuild"):
        m.prebuild()
    fams[m.FAMILY] = (getattr(m, "HARNESS_FLAGS", ()), getattr(m, "HARNESS_LIBS", ("-lcurl", "-lpthread")))
implbuild.build_lib()
print(f"impl lib built {time.time() - t0:.0f}s")


def one(item):
    fam, (flags, libs) = item
    try:
        coqbuild.build_modelrun(fam)
        implbuild.build_harness(fam, flags, libs)
        return fam, None
    except Exception as e:  # noqa: BLE001
        return fam, str(e)[-2000:]


bad = 0
with ThreadPoolExecutor(max_workers=8) as ex:
    for fam, err in ex.map(one, fams.items()):
        if err:
            bad += 1
            print(f"family {fam}: {err}")
print(f"setup done in {time.time() - t0:.0f}s, {len(fams)} families, {bad} failed")
sys.exit(0 if ok and not bad else 1)
