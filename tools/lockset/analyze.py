#!/usr/bin/env python3
"""Lock-discipline translator for C36: from the clang AST of src/core/Node.cpp (and the classes of its members) to a table of
accesses to Node's fields: (field, read/write, method, line, locks held inside Node).  Used by tools/props/C36.py.

Scopes: a variable of a lock type (unique_lock / scoped_lock / lock_guard) constructed on scheduler_mutex_ holds "sched" from its
declaration to the end of the enclosing compound statement.  Calls to other Node methods are followed with the caller's locks.
A lambda is analysed as part of the enclosing method (it runs inline: algorithm predicates, scope guards) except lambdas written
in the constructor, which are the callbacks the session threads run: they become entry points of their own."""
import json
import subprocess
import sys
from pathlib import Path

LOCK_TYPES = ("unique_lock", "scoped_lock", "lock_guard")


def load_ast(repo, rel, flt):
    cmd = ["clang++", "-std=c++20", "-I", str(repo / "include"), "-fsyntax-only", "-Xclang", "-ast-dump=json",
           "-Xclang", "-ast-dump-filter=" + flt, str(repo / rel)]
    r = subprocess.run(cmd, capture_output=True, text=True, cwd=repo)
    txt = r.stdout
    dec = json.JSONDecoder(); pos = 0; objs = []
    while pos < len(txt):
        while pos < len(txt) and txt[pos].isspace():
            pos += 1
        if pos >= len(txt):
            break
        o, pos = dec.raw_decode(txt, pos)
        objs.append(o)
    return objs


class Walker:
    def __init__(self, fields, methods_by_id, method_names):
        self.fields = fields              # decl id -> name
        self.methods_by_id = methods_by_id
        self.method_names = method_names
        self.line = 0
        self.taint = {}                 # local pointer / reference / iterator variable (decl id) -> fields it points into

    def note_line(self, node):
        for key in ("loc", "range"):
            v = node.get(key)
            if isinstance(v, dict):
                b = v.get("begin", v)
                if isinstance(b, dict) and "line" in b:
                    self.line = b["line"]
                    return

    def is_this_member(self, node):
        if node.get("kind") != "MemberExpr":
            return None
        inner = node.get("inner", [])
        base = inner[0] if inner else None
        while base and base.get("kind") in ("ImplicitCastExpr", "ParenExpr"):
            base = (base.get("inner") or [None])[0]
        if base and base.get("kind") == "CXXThisExpr":
            return node.get("referencedMemberDecl")
        return None

    def lock_decl(self, node):
        """DeclStmt that constructs a lock on a member mutex -> name of the mutex"""
        if node.get("kind") != "DeclStmt":
            return None
        for v in node.get("inner", []):
            if v.get("kind") == "VarDecl":
                qt = (v.get("type") or {}).get("desugaredQualType", "") + (v.get("type") or {}).get("qualType", "")
                if any(t in qt for t in LOCK_TYPES):
                    found = []
                    self.collect_members(v, found)
                    for f in found:
                        if "mutex" in f:
                            return f
        return None

    @staticmethod
    def pointer_like(var):
        t = var.get("type") or {}
        q = t.get("qualType", "") + " " + t.get("desugaredQualType", "")
        return "*" in q or "&" in q or "iterator" in q

    def tainted_fields(self, node, acc):
        """fields reachable through what this expression mentions: fields themselves and local pointers into fields"""
        if isinstance(node, dict):
            mid = self.is_this_member(node)
            if mid and mid in self.fields:
                acc.add(self.fields[mid])
            if node.get("kind") == "DeclRefExpr":
                rid = (node.get("referencedDecl") or {}).get("id")
                if rid in self.taint:
                    acc.update(self.taint[rid])
            for c in node.get("inner", []):
                self.tainted_fields(c, acc)

    def collect_members(self, node, acc):
        if isinstance(node, dict):
            mid = self.is_this_member(node)
            if mid and mid in self.fields:
                acc.append(self.fields[mid])
            for c in node.get("inner", []):
                self.collect_members(c, acc)

    def walk(self, node, locks, out, ctx, in_ctor):
        """out: list of events ('access', field, rw, line, locks) / ('call', method, line, locks) / ('lambda', node, line)"""
        if not isinstance(node, dict):
            return
        self.note_line(node)
        kind = node.get("kind")
        if kind == "CompoundStmt":
            held = set(locks)
            for c in node.get("inner", []):
                m = self.lock_decl(c)
                self.walk(c, frozenset(held), out, ctx, in_ctor)
                if m:
                    held.add(m)
            return
        if kind == "LambdaExpr":
            if in_ctor == "callback":
                out.append(("lambda", node, self.line))
                return
            for c in node.get("inner", []):
                if c.get("kind") == "CompoundStmt":
                    self.walk(c, locks, out, ctx, in_ctor)
            return
        if kind == "VarDecl" and self.pointer_like(node) and node.get("inner"):
            acc = set()
            for c in node.get("inner", []):
                self.tainted_fields(c, acc)
            acc.discard("scheduler_mutex_")
            if acc:
                self.taint[node.get("id")] = acc
        if kind == "DeclRefExpr":
            rid = (node.get("referencedDecl") or {}).get("id")
            if rid in self.taint:
                # using a pointer / reference / iterator into a field is an access to that field, here, under the locks held here
                for f in sorted(self.taint[rid]):
                    out.append(("access", f, "r" if ctx in ("r", "a") else ctx, self.line, locks))
            return
        mid = self.is_this_member(node)
        if mid and mid in self.fields:
            out.append(("access", self.fields[mid], ctx, self.line, locks))
            return
        if mid and mid in self.methods_by_id:
            out.append(("call", self.methods_by_id[mid], self.line, locks))
        # classify the context for children
        inner = node.get("inner", [])
        if kind == "ImplicitCastExpr" and node.get("castKind") == "LValueToRValue":
            for c in inner:
                self.walk(c, locks, out, "r", in_ctor)
            return
        if kind in ("BinaryOperator", "CompoundAssignOperator") and (node.get("opcode", "") == "=" or kind == "CompoundAssignOperator"):
            if inner and len(inner) >= 2:
                lhs = inner[0]
                while lhs.get("kind") in ("ParenExpr", "ImplicitCastExpr"):
                    lhs = (lhs.get("inner") or [{}])[0]
                if lhs.get("kind") == "DeclRefExpr":
                    ref = lhs.get("referencedDecl") or {}
                    if self.pointer_like(ref):
                        acc = set()
                        self.tainted_fields(inner[1], acc)
                        acc.discard("scheduler_mutex_")
                        if acc:
                            self.taint.setdefault(ref.get("id"), set()).update(acc)
            if inner:
                self.walk(inner[0], locks, out, "w", in_ctor)
                for c in inner[1:]:
                    self.walk(c, locks, out, "r", in_ctor)
            return
        if kind == "UnaryOperator" and node.get("opcode") in ("++", "--"):
            for c in inner:
                self.walk(c, locks, out, "w", in_ctor)
            return
        if kind == "CXXMemberCallExpr" and inner:
            callee = inner[0]
            const = False
            if callee.get("kind") == "MemberExpr":
                qt = (callee.get("type") or {}).get("qualType", "")
                # "<bound member function type>": constness is on the referenced method; look at the implicit object conversion instead
                obj = (callee.get("inner") or [None])[0]
                oq = ((obj or {}).get("type") or {}).get("qualType", "")
                const = oq.startswith("const ") or " const" in qt
                self.note_line(callee)
                # the object expression
                m2 = self.is_this_member(callee)
                if m2 and m2 in self.methods_by_id:
                    out.append(("call", self.methods_by_id[m2], self.line, locks))
                else:
                    for c in callee.get("inner", []):
                        self.walk(c, locks, out, "r" if const else "w", in_ctor)
            else:
                self.walk(callee, locks, out, "w", in_ctor)
            cname = callee.get("name", "") if callee.get("kind") == "MemberExpr" else ""
            registers = cname.startswith("set_") and cname.endswith(("handler", "builder", "callback"))
            for c in inner[1:]:
                self.walk(c, locks, out, "a", "callback" if registers else in_ctor)
            return
        if kind == "CXXOperatorCallExpr" and len(inner) >= 2:
            # inner[0] = the operator function, inner[1] = the object
            fq = ((inner[0].get("type") or {}).get("qualType", ""))
            oq = ((inner[1].get("type") or {}).get("qualType", ""))
            const = oq.startswith("const ") or fq.rstrip().endswith("const") or ") const" in fq
            self.walk(inner[1], locks, out, "r" if const else "w", in_ctor)
            for c in inner[2:]:
                self.walk(c, locks, out, "a", in_ctor)
            return
        if kind == "CallExpr":
            for c in inner:
                self.walk(c, locks, out, "a", in_ctor)
            return
        for c in inner:
            self.walk(c, locks, out, ctx if kind in ("ParenExpr", "ImplicitCastExpr", "MemberExpr", "ArraySubscriptExpr", "MaterializeTemporaryExpr", "CXXBindTemporaryExpr", "ExprWithCleanups") else "a", in_ctor)


def analyse(repo):
    objs = load_ast(repo, "src/core/Node.cpp", "ephemeralnet::Node::")
    fields = {o["id"]: o["name"] for o in objs if o.get("kind") == "FieldDecl"}
    ftypes = {o["name"]: (o.get("type") or {}).get("qualType", "") for o in objs if o.get("kind") == "FieldDecl"}
    decl_names = {}
    for o in objs:
        if o.get("kind") in ("CXXMethodDecl", "CXXConstructorDecl", "CXXDestructorDecl"):
            decl_names[o["id"]] = o.get("name", "?")
            if o.get("previousDecl"):
                decl_names[o["previousDecl"]] = o.get("name", "?")
    bodies = {}
    for o in objs:
        if o.get("kind") in ("CXXMethodDecl", "CXXConstructorDecl") and any(c.get("kind") == "CompoundStmt" for c in o.get("inner", [])):
            name = o.get("name", "?")
            key = name if name not in bodies else name + "#" + str(o["loc"].get("line", 0))
            bodies[key] = o
    w = Walker(fields, decl_names, set(decl_names.values()))
    summary = {}
    lambdas = []
    for name, o in bodies.items():
        events = []
        w.taint = {}
        in_ctor = False
        w.line = (o.get("loc") or {}).get("line", 0)
        for c in o.get("inner", []):
            if c.get("kind") == "CompoundStmt":
                w.walk(c, frozenset(), events, "a", in_ctor)
            elif c.get("kind") == "CXXCtorInitializer":
                pass
        summary[name] = events
        for e in events:
            if e[0] == "lambda":
                lambdas.append((name, e[1], e[2]))
    # the constructor's lambdas: entry points of the threads that run the callbacks
    for k, (owner, node, line) in enumerate(lambdas):
        events = []
        w.line = line
        for c in node.get("inner", []):
            if c.get("kind") == "CompoundStmt":
                w.walk(c, frozenset(), events, "a", False)
        summary[f"<callback@{line}>"] = events
    return fields, ftypes, summary


if __name__ == "__main__":
    repo = Path(sys.argv[1] if len(sys.argv) > 1 else "/repo")
    fields, ftypes, summary = analyse(repo)
    print(len(fields), "fields;", len(summary), "bodies")
    for name, ev in summary.items():
        acc = [(e[1], e[2], sorted(e[4])) for e in ev if e[0] == "access"]
        calls = [(e[1], sorted(e[3])) for e in ev if e[0] == "call"]
        if name in ("export_chunk_record", "handle_transport_message", "perform_handshake", "tick") or name.startswith("<callback"):
            print(name, "ACC", acc[:12], "CALLS", calls[:12])
