"""From the per-method events of analyze.py to the access table of C36: every access to a field of Node that a session thread
(role 0: the callbacks registered with SessionManager / RelayClient, no lock on entry) or the control / tick thread (role 1:
every Node method that src/daemon/ControlServer.cpp or src/main.cpp call on the node, entered under node_mutex) can make,
with whether scheduler_mutex_ is held there."""
import hashlib
import json
import re
import sys
from pathlib import Path

sys.path.insert(0, str(Path(__file__).resolve().parent))
import analyze  # noqa: E402

SCHED = "scheduler_mutex_"


def self_synchronised(repo, ftypes):
    """fields whose own type synchronises: std::atomic, a mutex, a struct of atomics, or a class of this project that has a
    mutex member (SessionManager, ReputationManager, ChunkStore, ...)"""
    headers = {p: p.read_text(errors="replace") for p in (repo / "include").rglob("*.hpp")}
    out = {}
    for name, ty in ftypes.items():
        t = ty.replace("ephemeralnet::", "")
        if "atomic<" in t or "mutex" in t:
            out[name] = "atomic / mutex"
            continue
        base = re.sub(r"^(const\s+)?(struct\s+|class\s+)?", "", t).split("<")[0].split("::")[-1].strip()
        for p, txt in headers.items():
            m = re.search(r"\b(class|struct)\s+" + re.escape(base) + r"\b[^;{]*\{", txt)
            if not m:
                continue
            # body of the class
            depth = 0; i = m.end() - 1; start = i
            while i < len(txt):
                if txt[i] == "{":
                    depth += 1
                elif txt[i] == "}":
                    depth -= 1
                    if depth == 0:
                        break
                i += 1
            body = txt[start:i]
            members = re.findall(r"^\s*(?:mutable\s+)?([\w:<>, ]+?)\s+\w+_?\s*(?:\{[^}]*\})?;", body, re.M)
            if re.search(r"\bstd::(recursive_)?mutex\b|\bstd::shared_mutex\b", body):
                out[name] = f"{base} has its own mutex ({p.relative_to(repo)})"
            elif base == "PowCounters" or (members and all("atomic<" in x for x in members)):
                out[name] = f"{base}: only atomics"
            break
    return out


def control_entries(repo, method_names):
    names = set()
    for rel in ("src/daemon/ControlServer.cpp", "src/main.cpp"):
        txt = (repo / rel).read_text(errors="replace")
        for m in re.finditer(r"\bnode_?\s*(?:\.|->)\s*(\w+)\s*\(", txt):
            if m.group(1) in method_names:
                names.add(m.group(1))
    return sorted(names)


def build(repo):
    fields, ftypes, summary = analyze.analyse(repo)
    by_base = {}
    for key in summary:
        by_base.setdefault(key.split("#")[0], []).append(key)
    method_names = set(by_base)
    sync = self_synchronised(repo, ftypes)
    entries = [(0, k) for k in summary if k.startswith("<callback")]
    entries += [(1, k) for n in control_entries(repo, method_names) for k in by_base.get(n, [])]
    rows = set()
    seen = set()
    work = [(role, key, frozenset()) for role, key in entries]
    while work:
        role, key, locks = work.pop()
        if (role, key, locks) in seen:
            continue
        seen.add((role, key, locks))
        for ev in summary.get(key, []):
            if ev[0] == "access":
                _, field, ctx, line, held = ev
                if field == SCHED:
                    continue
                rw = 1 if ctx == "w" else 0
                rows.add((field, rw, role, line, 1 if SCHED in (locks | held) else 0, key.split("#")[0]))
            elif ev[0] == "call":
                _, callee, line, held = ev
                for k2 in by_base.get(callee, []):
                    work.append((role, k2, locks | held))
    names = sorted(ftypes)
    return {"fields": names, "types": ftypes, "sync": sync, "rows": sorted(rows),
            "entries": {"session": [k for r, k in entries if r == 0], "control": sorted({k.split('#')[0] for r, k in entries if r == 1})}}


def racy(table):
    """field -> (site a, site b): a session-thread access and any other access, at least one a write, not both under scheduler_mutex_"""
    out = {}
    by_field = {}
    for row in table["rows"]:
        by_field.setdefault(row[0], []).append(row)
    for f, rs in by_field.items():
        if f in table["sync"]:
            continue
        for a in rs:
            if a[2] != 0:
                continue
            for b in rs:
                if (a[1] or b[1]) and not (a[4] and b[4]):
                    cand = (a, b)
                    # prefer a witness with a write on the session side and the other side in the control role
                    score = (a[1], b[2], b[1])
                    if f not in out or score > out[f][2]:
                        out[f] = (a, b, score)
    return {f: (v[0], v[1]) for f, v in out.items()}


def cached(repo, build_dir):
    h = hashlib.sha256()
    for rel in ("src/core/Node.cpp", "include/ephemeralnet/core/Node.hpp", "src/daemon/ControlServer.cpp", "src/main.cpp"):
        h.update((repo / rel).read_bytes())
    for p in sorted((repo / "include").rglob("*.hpp")):
        h.update(p.read_bytes())
    h.update(Path(__file__).read_bytes()); h.update(Path(analyze.__file__).read_bytes())
    f = build_dir / f"locktable_{h.hexdigest()[:16]}.json"
    if f.exists():
        t = json.loads(f.read_text())
        t["rows"] = [tuple(r) for r in t["rows"]]
        return t
    t = build(repo)
    build_dir.mkdir(parents=True, exist_ok=True)
    for old in build_dir.glob("locktable_*.json"):
        old.unlink()
    f.write_text(json.dumps(t))
    return t


if __name__ == "__main__":
    t = build(Path(sys.argv[1] if len(sys.argv) > 1 else "/repo"))
    print("entries:", t["entries"])
    print("self-synchronised:", t["sync"])
    print(len(t["rows"]), "rows")
    r = racy(t)
    for f, (a, b) in sorted(r.items()):
        print("RACY", f, "| session", a[5], a[3], "w" if a[1] else "r", "sched" if a[4] else "-", "| other", ["session", "control"][b[2]], b[5], b[3], "w" if b[1] else "r", "sched" if b[4] else "-")
    ok = sorted(set(x[0] for x in t["rows"]) - set(r) - set(t["sync"]))
    print("PROTECTED or read-only:", ok)
