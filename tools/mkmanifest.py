#!/usr/bin/env python3
"""Regenerate MANIFEST.json from the property plug-ins (tools/props/Cxx.py) and tools/not_applicable.json."""
import importlib.util
import json
import re
import sys
from pathlib import Path

VERIF = Path(__file__).resolve().parents[1]
sys.path.insert(0, str(VERIF / "tools"))

props = [json.loads(l) for l in (VERIF / "properties.jsonl").read_text().splitlines() if l.strip()]
ids = [p["id"] for p in props]

checks, engines = [], {}
claimed = set()
for pid in ids:
    path = VERIF / "tools" / "props" / f"{pid}.py"
    if not path.exists():
        continue
    spec = importlib.util.spec_from_file_location("p_" + pid, path)
    m = importlib.util.module_from_spec(spec)
    spec.loader.exec_module(m)
    if getattr(m, "WITHDRAWN", False):
        continue
    claimed.add(pid)
    fam = m.FAMILY
    engines.setdefault(fam, []).append(pid)
    checks.append({
        "property_id": pid,
        "quick_cmd": f"python3 tools/check.py {pid} --tier quick",
        "thorough_cmd": f"python3 tools/check.py {pid} --tier thorough",
        "evidence_file": f"evidence/{pid}.json",
        "replay_cmd_template": f"python3 tools/check.py {pid} --replay {{path}}",
        "engine": fam,
        "level_claimed": {
            "category": "proof",
            "text": getattr(m, "LEVEL_TEXT", "Rocq theorems about an executable Gallina model (coq/props/Properties_%s.v), "
                            "re-checked by the kernel on every run against constants regenerated from the source, plus a "
                            "differential correspondence check of the extracted model against the implementation built "
                            "from /repo's working tree under ASan+UBSan." % pid),
            "design_ref": getattr(m, "DESIGN_REF", f"DESIGN.md section 6, {pid}"),
        },
        "level_note": getattr(m, "LEVEL_NOTE", "Trusted: Coq 8.16.1 kernel (vm_compute, no native_compute), extraction with "
                              "ExtrOcamlBasic only, ocamlopt, the hand-written model and harness; the C++ is tied to the model by "
                              "differential execution (testing), not by proof. " + "; ".join(getattr(m, "ASSUMPTIONS", []))),
        "technique": getattr(m, "TECHNIQUE", "machine-checked proof in Rocq (Coq 8.16) over an executable model + extracted-model/implementation correspondence"),
    })

na_path = VERIF / "tools" / "not_applicable.json"
na = json.loads(na_path.read_text()) if na_path.exists() else {}
not_applicable = []
for pid in ids:
    if pid in claimed:
        continue
    not_applicable.append({"property_id": pid,
                           "reason": na.get(pid, "not claimed: no check has been built for this property yet (the technique applies; planned model in DESIGN.md section 6)")})

manifest = {
    "version": 1,
    "setup_cmd": "python3 tools/setup.py",
    "hooks": {
        "guard": "EPHEMERALNET_VERIF",
        "enable": "harnesses are compiled with -DEPHEMERALNET_VERIF=1 (tools/ephverif/paths.py); no source hook exists, so the define currently selects nothing",
        "baseline_off_cmd": "cmake -G Ninja -S /repo -B /repo/_build -DCMAKE_BUILD_TYPE=RelWithDebInfo && (cmake --build /repo/_build -j16 -- -k 0 || true) && ctest --test-dir /repo/_build -j8 --timeout 900",
        "source_commits": [],
        "add_only": True,
    },
    "engines": [{"name": f, "path": f"harness/impl_{f}.cpp + coq/extract/Extract_{f}.v", "serves_properties": sorted(v),
                 "kind_free_text": "Rocq model + proofs; extracted OCaml model runner vs. sanitizer build of the real code"}
                for f, v in sorted(engines.items())],
    "checks": checks,
    "notes": "Single entry point tools/check.py; see DESIGN.md. Fix commits in /repo are listed in known_findings.json (status fixed).",
    "not_applicable": not_applicable,
}
(VERIF / "MANIFEST.json").write_text(json.dumps(manifest, indent=1) + "\n")
print(f"claimed {len(checks)} / {len(ids)}")
