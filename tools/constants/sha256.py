SPEC = [
    ("sha256_K", "src/crypto/Sha256.cpp", r"kRoundConstants\s*=\s*\{([^}]*)\}", "intlist"),
    ("sha256_H0", "src/crypto/Sha256.cpp", r"Sha256::Sha256\(\)\s*:\s*state_\{([^}]*)\}", "intlist"),
    ("hmac_block_size", "include/ephemeralnet/crypto/HmacSha256.hpp", r"kBlockSize\s*=\s*([0-9xXa-fA-F']+)\s*;", "int"),
    ("hmac_digest_size", "include/ephemeralnet/crypto/HmacSha256.hpp", r"kDigestSize\s*=\s*([0-9xXa-fA-F']+)\s*;", "int"),
]
