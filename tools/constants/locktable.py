"""The access table of C36, regenerated from the clang AST of the current sources (tools/lockset): which thread role touches
which field of Node, reading or writing, at which line, with scheduler_mutex_ held or not."""
import sys
from pathlib import Path

SPEC = []


def extract(repo):
    sys.path.insert(0, str(Path(__file__).resolve().parents[1] / "lockset"))
    import table as lt
    t = lt.cached(Path(repo), Path(__file__).resolve().parents[2] / "build" / "lockset")
    names = t["fields"]
    idx = {n: i for i, n in enumerate(names)}
    rows = "[" + "; ".join(f"({idx[f]}, {rw}, {role}, {line}, {sched})" for f, rw, role, line, sched, _ in t["rows"]) + "]"
    sync = "[" + "; ".join(str(idx[f]) for f in sorted(t["sync"])) + "]"
    out = {
        "lock_table": (rows, "list (Z * Z * Z * Z * Z)", "src/core/Node.cpp: (field, write, role 0 session / 1 control, line, scheduler_mutex_ held)"),
        "lock_self_synchronised": (sync, "list Z", "fields whose own type synchronises"),
        "lock_field_count": (str(len(names)), "Z", "include/ephemeralnet/core/Node.hpp"),
    }
    for n in names:
        out["fld_" + n.rstrip("_")] = (str(idx[n]), "Z", "include/ephemeralnet/core/Node.hpp: " + n)
    return out
