SPEC = [
    ("kMinimumMessageVersion", "include/ephemeralnet/protocol/Message.hpp", r"kMinimumMessageVersion\s*=\s*([0-9]+)\s*;", "int"),
    ("kCurrentMessageVersion", "include/ephemeralnet/protocol/Message.hpp", r"kCurrentMessageVersion\s*=\s*([0-9]+)\s*;", "int"),
    ("msgtype_Announce", "include/ephemeralnet/protocol/Message.hpp", r"\bAnnounce\s*=\s*(0x[0-9a-fA-F]+)", "int"),
    ("msgtype_Request", "include/ephemeralnet/protocol/Message.hpp", r"\bRequest\s*=\s*(0x[0-9a-fA-F]+)", "int"),
    ("msgtype_Chunk", "include/ephemeralnet/protocol/Message.hpp", r"\bChunk\s*=\s*(0x[0-9a-fA-F]+)", "int"),
    ("msgtype_Acknowledge", "include/ephemeralnet/protocol/Message.hpp", r"\bAcknowledge\s*=\s*(0x[0-9a-fA-F]+)", "int"),
    ("msgtype_TransportHandshake", "include/ephemeralnet/protocol/Message.hpp", r"\bTransportHandshake\s*=\s*(0x[0-9a-fA-F]+)", "int"),
    ("msgtype_HandshakeAck", "include/ephemeralnet/protocol/Message.hpp", r"\bHandshakeAck\s*=\s*(0x[0-9a-fA-F]+)", "int"),
]


def extract(repo):
    import re
    text = (repo / "src/protocol/Message.cpp").read_text()
    names = {"kCurrentMessageVersion": None, "kMinimumMessageVersion": None}
    hdr = (repo / "include/ephemeralnet/protocol/Message.hpp").read_text()
    for k in names:
        names[k] = int(re.search(k + r"\s*=\s*([0-9]+)\s*;", hdr).group(1))

    def val(tok):
        return names[tok] if tok in names else int(tok)

    m_enc = re.search(r"const bool include_pow\s*=\s*version\s*>=\s*(\w+)\s*;", text)
    m_dec = re.search(r"if\s*\(\s*version\s*>=\s*(\w+)\s*&&\s*type\s*==\s*MessageType::Announce\s*\)", text)
    if not m_enc or not m_dec:
        raise ValueError("announce PoW version tests not found in Message.cpp")
    return {
        "announce_pow_encode_from": (str(val(m_enc.group(1))), "Z", "src/protocol/Message.cpp encode(): include_pow"),
        "announce_pow_decode_from": (str(val(m_dec.group(1))), "Z", "src/protocol/Message.cpp decode(): version >= N && Announce"),
    }
