SPEC = [
    ("store_rate_window", "src/daemon/ControlServer.cpp", r"kStoreRateWindow\{([^;]*?)\};", "seconds"),
    ("store_rate_limit", "src/daemon/ControlServer.cpp", r"kStoreRateBurstLimit\s*=\s*([0-9]+)\s*;", "int"),
    ("fetch_rate_window", "src/daemon/ControlServer.cpp", r"kFetchStreamRateWindow\{([^;]*?)\};", "seconds"),
    ("fetch_rate_limit", "src/daemon/ControlServer.cpp", r"kFetchStreamBurstLimit\s*=\s*([0-9]+)\s*;", "int"),
]
