SPEC = [
    ("rep_success_reward", "include/ephemeralnet/network/ReputationManager.hpp", r"int success_reward\s*=\s*(-?[0-9]+)", "int"),
    ("rep_failure_penalty", "include/ephemeralnet/network/ReputationManager.hpp", r"int failure_penalty\s*=\s*(-?[0-9]+)", "int"),
    ("rep_max_score", "include/ephemeralnet/network/ReputationManager.hpp", r"kMaxScore\s*=\s*(-?[0-9]+)\s*;", "int"),
    ("rep_min_score", "include/ephemeralnet/network/ReputationManager.hpp", r"kMinScore\s*=\s*(-?[0-9]+)\s*;", "int"),
]
