SPEC = [
    ("max_providers", "src/dht/KademliaTable.cpp", r"kMaxProviders\s*=\s*([0-9]+)\s*;", "int"),
]
