SPEC = [
    ("bucket_size", "include/ephemeralnet/dht/KademliaTable.hpp", r"kBucketSize\s*=\s*([0-9]+)\s*;", "int"),
]
