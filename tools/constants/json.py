SPEC = [
    ("json_max_depth", "src/core/UpdateCheck.cpp", r"kMaxNestingDepth\s*=\s*([0-9]+)\s*;", "int"),
]
