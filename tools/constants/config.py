SPEC = [
    ("min_key_rotation", "src/core/Node.cpp", r"kMinKeyRotationInterval\{([^;]*?)\};", "seconds"),
    ("max_key_rotation", "src/core/Node.cpp", r"kMaxKeyRotationInterval\{([^;]*?)\};", "seconds"),
    ("min_allowed_ttl", "src/core/Node.cpp", r"kMinAllowedManifestTtl\{([^;]*?)\};", "seconds"),
    ("max_allowed_ttl", "src/core/Node.cpp", r"kMaxAllowedManifestTtl\{([^;]*?)\};", "seconds"),
    ("min_announce_interval", "src/core/Node.cpp", r"kMinAnnounceInterval\{([^;]*?)\};", "seconds"),
    ("max_announce_window", "src/core/Node.cpp", r"kMaxAnnounceWindow\{([^;]*?)\};", "seconds"),
    ("max_announce_pow", "src/core/Node.cpp", r"kMaxAnnouncePowDifficulty\{\s*([0-9]+)\s*\}", "int"),
    ("max_handshake_pow", "src/core/Node.cpp", r"kMaxHandshakePowDifficulty\{\s*([0-9]+)\s*\}", "int"),
    ("max_store_pow", "src/core/Node.cpp", r"kMaxStorePowDifficulty\{\s*([0-9]+)\s*\}", "int"),
    ("store_minimum_ttl", "src/core/ChunkStore.cpp", r"kMinimumTtl\{([^;]*?)\};", "seconds"),
]
