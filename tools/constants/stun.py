SPEC = [
    ("stun_magic_cookie", "src/network/NatTraversal.cpp", r"kStunMagicCookie\s*=\s*(0x[0-9A-Fa-f]+|[0-9]+)\s*;", "int"),
]
