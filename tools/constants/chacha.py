SPEC = [
    ("chacha_sigma", "src/crypto/ChaCha20.cpp", r"kSigma\s*\{([^}]*)\}", "intlist"),
    ("chacha_block_size", "src/crypto/ChaCha20.cpp", r"kBlockSize\s*=\s*([0-9]+)\s*;", "int"),
]
