SPEC = [
    ("kx_prime", "include/ephemeralnet/network/KeyExchange.hpp", r"kPrime\s*=\s*([0-9']+)u?\s*;", "int"),
    ("kx_generator", "include/ephemeralnet/network/KeyExchange.hpp", r"kGenerator\s*=\s*([0-9']+)u?\s*;", "int"),
]
