SPEC = [
    ("transport_max_payload", "src/network/SessionManager.cpp", r"kMaxPayloadSize\s*=\s*([0-9'\s\*]+);", "product"),
]
