SPEC = [
    ("gf_polynomial", "src/crypto/Shamir.cpp", r"kFieldPolynomial\s*=\s*(0x[0-9A-Fa-f]+)u?\s*;", "int"),
]
