SPEC = [
    ("max_store_pow_difficulty", "include/ephemeralnet/security/StoreProof.hpp", r"kMaxStorePowDifficulty\s*=\s*([0-9']+)\s*;", "int"),
    ("default_store_pow_attempts", "include/ephemeralnet/security/StoreProof.hpp", r"kDefaultStorePowMaxAttempts\s*=\s*([0-9']+)\s*;", "int"),
    ("max_announce_pow_attempts", "src/core/Node.cpp", r"kMaxAnnouncePowAttempts\s*\{\s*([0-9']+)\s*\}", "int"),
    ("max_handshake_pow_attempts", "src/core/Node.cpp", r"kMaxHandshakePowAttempts\s*\{\s*([0-9']+)\s*\}", "int"),
    ("max_transport_pow_attempts", "src/main.cpp", r"kTransportPowMaxAttempts\s*=\s*([0-9']+)\s*;", "int"),
]
