SPEC = [
    ("fetch_max_name", "src/main.cpp", r"auto sanitize_filename = \[\]\(const std::string& candidate\).*?kMaxSuggestedNameLength\s*=\s*([0-9]+)\s*;", "int"),
    ("store_max_name", "src/core/Node.cpp", r"auto sanitize_filename = \[\]\(std::string value\).*?kMaxSuggestedNameLength\s*=\s*([0-9]+)\s*;", "int"),
    ("hint_max_name", "src/security/StoreProof.cpp", r"sanitize_filename_hint.*?kMaxFilenameLength\s*=\s*([0-9]+)\s*;", "int"),
]
