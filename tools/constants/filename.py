SPEC = [
    ("fetch_max_name", "src/main.cpp", r"if\s*\(\s*treat_as_directory\s*\)\s*\{\s*std::string inferred_name;.*?kMaxSuggestedNameLength\s*=\s*([0-9]+)\s*;", "int"),
    ("store_max_name", "src/core/Node.cpp", r"protocol::Manifest Node::store_chunk\(.*?kMaxSuggestedNameLength\s*=\s*([0-9]+)\s*;", "int"),
    ("hint_max_name", "src/security/StoreProof.cpp", r"sanitize_filename_hint.*?kMaxFilenameLength\s*=\s*([0-9]+)\s*;", "int"),
]
