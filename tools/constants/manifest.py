SPEC = [
    ("manifest_version", "src/protocol/Manifest.cpp", r"kManifestVersion\s*=\s*([0-9]+)\s*;", "int"),
    ("base64_alphabet", "src/protocol/Manifest.cpp", r'kBase64Alphabet\[\]\s*=\s*"([^"]*)"\s*;', "string"),
    ("manifest_scheme", "src/protocol/Manifest.cpp", r'kScheme\[\]\s*=\s*"([^"]*)"\s*;', "string"),
    ("attestation_digest_size", "src/protocol/Manifest.cpp", r"kAttestationDigestSize\s*=\s*([0-9]+)\s*;", "int"),
]
