SPEC = [
    ("announce_failure_window", "src/core/Node.cpp", r"kAnnounceFailureWindow\{([^;]*?)\};", "seconds"),
    ("announce_lockout_duration", "src/core/Node.cpp", r"kAnnounceLockoutDuration\{([^;]*?)\};", "seconds"),
    ("announce_failure_threshold", "src/core/Node.cpp", r"kAnnounceFailureThreshold\{\s*([0-9]+)\s*\}", "int"),
]
