#!/bin/sh
# developer convenience: run every claimed quick check, print a summary line per property
cd "$(dirname "$0")/.."
for p in $(python3 -c "import json;print(' '.join(c['property_id'] for c in json.load(open('MANIFEST.json'))['checks']))"); do
  out=$(python3 tools/check.py $p --tier ${VERIF_TIER:-quick} 2>&1); rc=$?
  echo "$p rc=$rc $(echo "$out" | grep -c VIOLATION) violations :: $(echo "$out" | tail -1)"
done
