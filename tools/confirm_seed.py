#!/usr/bin/env python3
"""Developer tool: confirm a candidate breaking change delivered by a sub-agent and file it under seeded/.

  tools/confirm_seed.py <Cxx> <worktree> <dir with patch.diff/demo.cpp/README.md> <name> [extra demo sources relative to the worktree ...]

In the scratch worktree (never /repo): (1) demo passes on the clean tree; (2) with patch.diff applied the project builds
(cmake, RelWithDebInfo) and the 46 pinned tests pass; (3) the demo fails; (4) the registered quick check of the property
(VERIF_REPO=<worktree>) reports a violation.  Writes seeded/<Cxx>-<m>/{patch.diff,demo.cpp,README.md,meta.json}."""
import json
import shutil
import subprocess
import sys
from pathlib import Path

VERIF = Path(__file__).resolve().parents[1]
pid, wt, mdir, mname, extra = sys.argv[1], Path(sys.argv[2]), Path(sys.argv[3]).resolve(), sys.argv[4], sys.argv[5:]
props = {json.loads(l)["id"]: json.loads(l) for l in (VERIF / "properties.jsonl").read_text().splitlines() if l.strip()}


def sh(cmd, **kw):
    return subprocess.run(cmd, shell=True, cwd=wt, capture_output=True, text=True, **kw)


BUILD = ("cmake -G Ninja -S . -B _build -DCMAKE_BUILD_TYPE=RelWithDebInfo >/dev/null && "
         "(cmake --build _build -j12 -- -k 0 >/dev/null 2>&1 || true)")
NEEDS_LIB = any("_build/" in x for x in extra)


def demo():
    (wt / "_scratch").mkdir(exist_ok=True)
    c = sh(f"g++ -std=c++20 -O1 -I include -I . -I src -I tests {mdir}/demo.cpp {' '.join(extra)} -o _scratch/demo_{mname} -lcurl -lpthread")
    if c.returncode != 0:
        return None, c.stderr[-2000:]
    r = sh(f"EPH_CLI_EXECUTABLE=$PWD/_build/eph timeout 600 ./_scratch/demo_{mname}")
    return r.returncode, (r.stdout + r.stderr)[-1500:]


ran = []
sh("git checkout -q -- .")
if NEEDS_LIB:
    sh(BUILD)
rc_clean, out_clean = demo()
ran.append(f"clean tree: demo exit {rc_clean}")
a = sh(f"git apply {mdir}/patch.diff")
assert a.returncode == 0, a.stderr
b = sh(BUILD + " && ctest --test-dir _build -j8 --timeout 900 2>&1 | tail -12")
tests = b.stdout.strip().splitlines()
flaky = [t for t in tests if "(Failed)" in t or "(Timeout)" in t]
if flaky:
    # CLIBootstrap and a few other tests bind fixed ports and fail under load; re-run only the failed ones once
    b2 = sh("ctest --test-dir _build --rerun-failed --timeout 900 2>&1 | tail -12")
    t2 = b2.stdout.strip().splitlines()
    ran.append("first ctest run had failures (" + "; ".join(x.strip() for x in flaky) + "); re-run of the failed tests alone: " +
               " / ".join(x.strip() for x in t2 if "tests passed" in x or "(Failed)" in x or "(Not Run)" in x))
    still = [t for t in t2 if "(Failed)" in t or "(Timeout)" in t]
    tests = [t for t in tests if not ("(Failed)" in t or "(Timeout)" in t)] + still
    if not still:
        tests = [t.replace("2 tests failed out of 47", "1 tests failed out of 47") for t in tests]
rc_mut, out_mut = demo()
ran.append(f"with patch: demo exit {rc_mut}")
summary = [t.strip() for t in tests if "tests passed" in t or "(Not Run)" in t or "(Failed)" in t or "Timeout" in t]
ran.append("with patch: cmake build + ctest: " + " / ".join(summary))
failed_lines = [t for t in tests if "(Failed)" in t or "(Timeout)" in t or ("(Not Run)" in t and "CLIFetchDir" not in t)]
passed = (any("1 tests failed out of 47" in t for t in tests) and any("CLIFetchDir (Not Run)" in t for t in tests)
          and not failed_lines) or any("100% tests passed" in t for t in tests)
chk = subprocess.run(f"VERIF_REPO={wt} python3 tools/check.py {pid} --tier quick 2>&1 | tail -6", shell=True, cwd=VERIF, capture_output=True, text=True)
ran.append("with patch: check quick: " + " / ".join(chk.stdout.strip().splitlines()[-3:]))
caught = "VIOLATION" in chk.stdout
sh("git checkout -q -- .")
subprocess.run("python3 -c \"import sys; sys.path.insert(0,'tools'); from ephverif import genconst; genconst.regenerate()\"", shell=True, cwd=VERIF)
ok = rc_clean == 0 and rc_mut not in (0, None) and passed
print(json.dumps({"id": f"{pid}-{mname}", "confirmed": ok, "caught": caught, "ran": ran}, indent=1))
print((out_mut or "")[-600:])
if ok:
    dst = VERIF / "seeded" / f"{pid}-{mname}"
    dst.mkdir(parents=True, exist_ok=True)
    for f in ("patch.diff", "demo.cpp", "README.md"):
        if (mdir / f).exists():
            shutil.copy(mdir / f, dst / f)
    readme = (mdir / "README.md").read_text() if (mdir / "README.md").exists() else ""
    needs = ""
    for line in readme.splitlines():
        if "ondition" in line or "manifest" in line.lower():
            needs = line.strip(" -*#")
            break
    meta = {"property": pid, "title": props[pid]["title"], "breaks": "see README.md (written by the sub-agent that produced the change)",
            "needs_to_manifest": needs, "demo_build": f"g++ -std=c++20 -O1 -I include -I . demo.cpp {' '.join(extra)} (from the repository root)",
            "confirmed_by_me": ran, "caught_by": (f"tools/check.py {pid} --tier quick" if caught else "NOT CAUGHT by the quick check at the time of filing"),
            "check_output": chk.stdout.strip().splitlines()[-3:]}
    (dst / "meta.json").write_text(json.dumps(meta, indent=1) + "\n")
