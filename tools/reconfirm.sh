#!/bin/sh
# developer tool: after the machinery was extended for a seed that had been missed, run the quick check against the seed again
# and record the outcome in its meta.json.   tools/reconfirm.sh <Cxx> <mN> <worktree> "<what was extended>"
pid=$1; m=$2; wt=$3; what=$4
cd "$(dirname "$0")/.."
out=$(tools/muttest.sh "$pid" "$wt" "$PWD/seeded/$pid-$m/patch.diff" | tail -3)
echo "$out"
python3 - "$pid" "$m" "$what" "$out" <<'PY'
import json, sys
pid, m, what, out = sys.argv[1:5]
p = f"seeded/{pid}-{m}/meta.json"
d = json.load(open(p))
caught = f"VIOLATION property={pid} " in out
d.setdefault("history", []).append({"first_filed": d.get("caught_by"), "first_output": d.get("check_output")})
d["caught_by"] = f"tools/check.py {pid} --tier quick" if caught else "NOT CAUGHT after the extension"
d["check_output"] = out.strip().splitlines()[-2:]
d["extended"] = what
json.dump(d, open(p, "w"), indent=1)
print("caught" if caught else "STILL MISSED")
PY
